//! C03 bug 2: the volume-label entry of the root directory is treated as a regular file.
//!
//! A FAT root directory normally contains one entry with attribute 0x08
//! (ATTR_VOLUME_ID): the volume label.  It is not a file: its start cluster and
//! size must stay 0 and no file API may touch it.  `find_directory_entry`
//! (src/fat/volume.rs `find_entry_in_block`) only skips long-name fragments
//! (`!is_lfn() && matches(name)`), so a label entry is returned for a matching
//! name, and `open_file_in_dir` / `delete_file_in_dir` (src/volume_mgr.rs) only
//! test `is_directory()` / `is_read_only()`.  Therefore, on a volume labelled
//! "MYLABEL":
//!   * `open_file_in_dir(root, "MYLABEL", ReadWriteAppend)` succeeds; `write` allocates a
//!     cluster and `close_file` stores start cluster + size INTO THE LABEL ENTRY
//!     (attr becomes 0x28).  Every other FAT implementation ignores the cluster field of
//!     a label entry, so this chain has no owner (a lost chain), and the label entry is
//!     malformed.
//!   * `delete_file_in_dir(root, "MYLABEL")` removes the volume label.
//!
//! What should have happened: label entries are not files; both calls must fail
//! with `NotFound` (or a dedicated error) and must not change the entry.
//!
//! Clause of C03 violated: "the on-disk volume ... is structurally sound: every
//! file and directory chain ..." - after `close_file` returns there is an
//! allocated, end-marked chain that belongs to no file and no directory, hanging
//! off an entry that by definition cannot own clusters (title: "The volume stays
//! a well-formed FAT file system after every operation").
// ---------------------------------------------------------------------------
// Minimal in-memory disk, mkfs and raw-image helpers (no dependency on tests/utils)
// ---------------------------------------------------------------------------
use embedded_sdmmc::{
    Block, BlockCount, BlockDevice, BlockIdx, Mode, TimeSource, Timestamp, VolumeIdx,
    VolumeManager,
};
use std::cell::RefCell;
use std::rc::Rc;

#[derive(Clone)]
struct Disk(Rc<RefCell<Vec<u8>>>);

impl BlockDevice for Disk {
    type Error = ();
    fn read(&self, blocks: &mut [Block], start: BlockIdx) -> Result<(), ()> {
        let d = self.0.borrow();
        for (i, b) in blocks.iter_mut().enumerate() {
            let o = (start.0 as usize + i) * 512;
            if o + 512 > d.len() {
                return Err(());
            }
            b.contents.copy_from_slice(&d[o..o + 512]);
        }
        Ok(())
    }
    fn write(&self, blocks: &[Block], start: BlockIdx) -> Result<(), ()> {
        let mut d = self.0.borrow_mut();
        for (i, b) in blocks.iter().enumerate() {
            let o = (start.0 as usize + i) * 512;
            if o + 512 > d.len() {
                return Err(());
            }
            d[o..o + 512].copy_from_slice(&b.contents);
        }
        Ok(())
    }
    fn num_blocks(&self) -> Result<BlockCount, ()> {
        Ok(BlockCount((self.0.borrow().len() / 512) as u32))
    }
}

struct Clock;
impl TimeSource for Clock {
    fn get_timestamp(&self) -> Timestamp {
        Timestamp {
            year_since_1970: 40,
            zero_indexed_month: 1,
            zero_indexed_day: 1,
            hours: 1,
            minutes: 2,
            seconds: 4,
        }
    }
}

fn w16(b: &mut [u8], o: usize, v: u16) {
    b[o..o + 2].copy_from_slice(&v.to_le_bytes());
}
fn w32(b: &mut [u8], o: usize, v: u32) {
    b[o..o + 4].copy_from_slice(&v.to_le_bytes());
}
fn r16(b: &[u8], o: usize) -> u16 {
    u16::from_le_bytes([b[o], b[o + 1]])
}
fn r32(b: &[u8], o: usize) -> u32 {
    u32::from_le_bytes([b[o], b[o + 1], b[o + 2], b[o + 3]])
}

/// Where things are in the image made by `mkfs` (all in 512-byte blocks, absolute).
#[derive(Clone, Copy, Debug)]
struct Layout {
    fat32: bool,
    fat_start: usize,
    /// FAT16: first block of the fixed root directory. FAT32: first block of the root cluster.
    root_start: usize,
    /// number of 32-byte slots of the root directory (FAT32: of its first cluster)
    root_slots: usize,
}

/// An empty, freshly formatted, MBR-partitioned volume: one sector per cluster,
/// two FATs, partition starting at block 1. `fat32 == false`: FAT16 with 4085
/// clusters and `root_entries` root slots; `fat32 == true`: FAT32 with 65525
/// clusters and the root directory in cluster 2.
fn mkfs(fat32: bool, root_entries: u16) -> (Vec<u8>, Layout) {
    let clusters: u32 = if fat32 { 65525 } else { 4085 };
    let reserved: u32 = if fat32 { 32 } else { 1 };
    let entries = clusters + 2;
    let fatsz = if fat32 { (entries * 4 + 511) / 512 } else { (entries * 2 + 511) / 512 };
    let rootblocks = if fat32 { 0 } else { (root_entries as u32 * 32 + 511) / 512 };
    let total = reserved + 2 * fatsz + rootblocks + clusters;
    let lba = 1u32;
    let mut img = vec![0u8; (lba + total) as usize * 512];
    // MBR
    img[446 + 4] = if fat32 { 0x0C } else { 0x0E };
    w32(&mut img, 446 + 8, lba);
    w32(&mut img, 446 + 12, total);
    w16(&mut img, 510, 0xAA55);
    // boot sector
    let base = lba as usize * 512;
    {
        let b = &mut img[base..base + 512];
        b[0..3].copy_from_slice(&[0xEB, 0x3C, 0x90]);
        b[3..11].copy_from_slice(b"MSWIN4.1");
        w16(b, 11, 512);
        b[13] = 1;
        w16(b, 14, reserved as u16);
        b[16] = 2;
        w16(b, 17, if fat32 { 0 } else { root_entries });
        if total < 0x10000 && !fat32 {
            w16(b, 19, total as u16);
        } else {
            w32(b, 32, total);
        }
        b[21] = 0xF8;
        if fat32 {
            w32(b, 36, fatsz);
            w32(b, 44, 2);
            w16(b, 48, 1);
            w16(b, 50, 6);
            b[66] = 0x29;
            b[71..82].copy_from_slice(b"NO NAME    ");
            b[82..90].copy_from_slice(b"FAT32   ");
        } else {
            w16(b, 22, fatsz as u16);
            b[38] = 0x29;
            b[43..54].copy_from_slice(b"NO NAME    ");
            b[54..62].copy_from_slice(b"FAT16   ");
        }
        w16(b, 510, 0xAA55);
    }
    if fat32 {
        let o = base + 512;
        w32(&mut img, o, 0x4161_5252);
        w32(&mut img, o + 484, 0x6141_7272);
        w32(&mut img, o + 488, 0xFFFF_FFFF);
        w32(&mut img, o + 492, 0xFFFF_FFFF);
        w32(&mut img, o + 508, 0xAA55_0000);
    }
    for f in 0..2usize {
        let fo = base + (reserved as usize + f * fatsz as usize) * 512;
        if fat32 {
            w32(&mut img, fo, 0x0FFF_FFF8);
            w32(&mut img, fo + 4, 0x0FFF_FFFF);
            w32(&mut img, fo + 8, 0x0FFF_FFFF); // root directory, one cluster
        } else {
            w16(&mut img, fo, 0xFFF8);
            w16(&mut img, fo + 2, 0xFFFF);
        }
    }
    let layout = Layout {
        fat32,
        fat_start: (lba + reserved) as usize,
        root_start: (lba + reserved + 2 * fatsz) as usize,
        root_slots: if fat32 { 16 } else { root_entries as usize },
    };
    (img, layout)
}

/// The 32 bytes of root directory slot `i` (may lie behind `root_slots`).
fn root_slot(img: &[u8], l: &Layout, i: usize) -> [u8; 32] {
    let o = l.root_start * 512 + i * 32;
    let mut s = [0u8; 32];
    s.copy_from_slice(&img[o..o + 32]);
    s
}

fn show(s: &[u8; 32]) -> String {
    format!(
        "name {:?} attr {:#04x} cluster {} size {}",
        String::from_utf8_lossy(&s[0..11]),
        s[11],
        ((r16(s, 20) as u32) << 16) | r16(s, 26) as u32,
        r32(s, 28)
    )
}

// ---------------------------------------------------------------------------

/// Put a volume label entry (attribute 0x08) into the first free root slot, like every
/// formatter does (`mkfs.fat -n MYLABEL`, Windows format, macOS newfs_msdos -v).
fn add_label(img: &mut [u8], l: &Layout) -> usize {
    let mut i = 0;
    while root_slot(img, l, i)[0] != 0 {
        i += 1;
    }
    let o = l.root_start * 512 + i * 32;
    img[o..o + 11].copy_from_slice(b"MYLABEL    ");
    img[o + 11] = 0x08;
    i
}

fn fat_entry(img: &[u8], l: &Layout, c: u32) -> u32 {
    if l.fat32 {
        r32(img, l.fat_start * 512 + 4 * c as usize) & 0x0FFF_FFFF
    } else {
        r16(img, l.fat_start * 512 + 2 * c as usize) as u32
    }
}

fn used_clusters(img: &[u8], l: &Layout) -> Vec<u32> {
    let n = if l.fat32 { 65525 } else { 4085 };
    (2..n + 2).filter(|&c| fat_entry(img, l, c) != 0).collect()
}

fn write_through_label(fat32: bool) {
    let (mut img, l) = mkfs(fat32, 32);
    let slot = add_label(&mut img, &l);
    let before = root_slot(&img, &l, slot);
    let used_before = used_clusters(&img, &l);
    let img = Rc::new(RefCell::new(img));
    let vm = VolumeManager::new(Disk(img.clone()), Clock);
    let vol = vm.open_raw_volume(VolumeIdx(0)).unwrap();
    let root = vm.open_root_dir(vol).unwrap();

    let r = vm.open_file_in_dir(root, "MYLABEL", Mode::ReadWriteAppend);
    println!("open_file_in_dir(root, \"MYLABEL\", ReadWriteAppend) -> {r:?}");
    if let Ok(f) = r {
        println!("write -> {:?}", vm.write(f, b"hello"));
        println!("close_file -> {:?}", vm.close_file(f));
    }
    let after = root_slot(&img.borrow(), &l, slot);
    let used_after = used_clusters(&img.borrow(), &l);
    println!("label entry before: {}", show(&before));
    println!("label entry after : {}", show(&after));
    println!("allocated clusters before {used_before:?} after {used_after:?}");
    assert_eq!(
        before, after,
        "the volume label entry was modified: {} -> {}",
        show(&before),
        show(&after)
    );
    assert_eq!(
        used_before, used_after,
        "clusters were allocated to a chain that hangs off the volume label entry"
    );
}

#[test]
fn fat16_label_is_not_a_file() {
    write_through_label(false);
}

#[test]
fn fat32_label_is_not_a_file() {
    write_through_label(true);
}

#[test]
fn label_cannot_be_deleted_as_a_file() {
    let (mut img, l) = mkfs(false, 32);
    let slot = add_label(&mut img, &l);
    let before = root_slot(&img, &l, slot);
    let img = Rc::new(RefCell::new(img));
    let vm = VolumeManager::new(Disk(img.clone()), Clock);
    let vol = vm.open_raw_volume(VolumeIdx(0)).unwrap();
    let root = vm.open_root_dir(vol).unwrap();
    let r = vm.delete_file_in_dir(root, "MYLABEL");
    println!("delete_file_in_dir(root, \"MYLABEL\") -> {r:?}");
    let after = root_slot(&img.borrow(), &l, slot);
    assert_eq!(
        before, after,
        "the volume label entry was deleted: first name byte {:#04x} -> {:#04x}",
        before[0], after[0]
    );
}
