//! hunt: mkfs + fsck + random driver (scratch)
#![allow(dead_code)]

use embedded_sdmmc::{
    Block, BlockCount, BlockDevice, BlockIdx, Mode, RawDirectory, RawFile, TimeSource, Timestamp,
    VolumeIdx, VolumeManager,
};
use std::cell::RefCell;
use std::collections::HashMap;
use std::rc::Rc;

#[derive(Clone)]
pub struct Disk(pub Rc<RefCell<Vec<u8>>>);

impl BlockDevice for Disk {
    type Error = ();
    fn read(&self, blocks: &mut [Block], start: BlockIdx) -> Result<(), ()> {
        let d = self.0.borrow();
        for (i, b) in blocks.iter_mut().enumerate() {
            let o = (start.0 as usize + i) * 512;
            if o + 512 > d.len() {
                return Err(());
            }
            b.contents.copy_from_slice(&d[o..o + 512]);
        }
        Ok(())
    }
    fn write(&self, blocks: &[Block], start: BlockIdx) -> Result<(), ()> {
        let mut d = self.0.borrow_mut();
        for (i, b) in blocks.iter().enumerate() {
            let o = (start.0 as usize + i) * 512;
            if o + 512 > d.len() {
                return Err(());
            }
            d[o..o + 512].copy_from_slice(&b.contents);
        }
        Ok(())
    }
    fn num_blocks(&self) -> Result<BlockCount, ()> {
        Ok(BlockCount((self.0.borrow().len() / 512) as u32))
    }
}

pub struct Clock;
impl TimeSource for Clock {
    fn get_timestamp(&self) -> Timestamp {
        Timestamp {
            year_since_1970: 40,
            zero_indexed_month: 1,
            zero_indexed_day: 1,
            hours: 1,
            minutes: 2,
            seconds: 4,
        }
    }
}

#[derive(Clone, Copy, Debug)]
pub struct Geo {
    pub fat32: bool,
    pub spc: u8,
    pub reserved: u16,
    pub nfats: u8,
    pub root_entries: u16,
    pub clusters: u32,
    pub lba_start: u32,
    pub root_cluster: u32,
    /// clusters (from the top down to) pre-marked as used by a big filler file? number of clusters to leave free
    pub leave_free: Option<u32>,
}

fn w16(b: &mut [u8], o: usize, v: u16) {
    b[o..o + 2].copy_from_slice(&v.to_le_bytes());
}
fn w32(b: &mut [u8], o: usize, v: u32) {
    b[o..o + 4].copy_from_slice(&v.to_le_bytes());
}
fn r16(b: &[u8], o: usize) -> u16 {
    u16::from_le_bytes([b[o], b[o + 1]])
}
fn r32(b: &[u8], o: usize) -> u32 {
    u32::from_le_bytes([b[o], b[o + 1], b[o + 2], b[o + 3]])
}

pub fn mkfs(g: Geo) -> Vec<u8> {
    let entries = g.clusters + 2;
    let fatsz = if g.fat32 {
        (entries * 4 + 511) / 512
    } else {
        (entries * 2 + 511) / 512
    };
    let rootblocks = if g.fat32 {
        0
    } else {
        (g.root_entries as u32 * 32 + 511) / 512
    };
    let total = g.reserved as u32 + g.nfats as u32 * fatsz + rootblocks + g.clusters * g.spc as u32;
    let mut img = vec![0u8; (g.lba_start + total) as usize * 512];
    // MBR
    img[446 + 4] = if g.fat32 { 0x0C } else { 0x0E };
    w32(&mut img, 446 + 8, g.lba_start);
    w32(&mut img, 446 + 12, total);
    w16(&mut img, 510, 0xAA55);
    let base = g.lba_start as usize * 512;
    {
        let b = &mut img[base..base + 512];
        b[0] = 0xEB;
        b[1] = 0x3C;
        b[2] = 0x90;
        b[3..11].copy_from_slice(b"MSWIN4.1");
        w16(b, 11, 512);
        b[13] = g.spc;
        w16(b, 14, g.reserved);
        b[16] = g.nfats;
        w16(b, 17, if g.fat32 { 0 } else { g.root_entries });
        if total < 0x10000 && !g.fat32 {
            w16(b, 19, total as u16);
        } else {
            w32(b, 32, total);
        }
        b[21] = 0xF8;
        if g.fat32 {
            w32(b, 36, fatsz);
            w16(b, 42, 0);
            w32(b, 44, g.root_cluster);
            w16(b, 48, 1);
            w16(b, 50, 6);
            b[66] = 0x29;
            b[71..82].copy_from_slice(b"NO NAME    ");
            b[82..90].copy_from_slice(b"FAT32   ");
        } else {
            w16(b, 22, fatsz as u16);
            b[38] = 0x29;
            b[43..54].copy_from_slice(b"NO NAME    ");
            b[54..62].copy_from_slice(b"FAT16   ");
        }
        w16(b, 510, 0xAA55);
    }
    if g.fat32 {
        let o = base + 512;
        w32(&mut img, o, 0x4161_5252);
        w32(&mut img, o + 484, 0x6141_7272);
        w32(&mut img, o + 488, 0xFFFF_FFFF);
        w32(&mut img, o + 492, 0xFFFF_FFFF);
        w32(&mut img, o + 508, 0xAA55_0000);
    }
    for f in 0..g.nfats as usize {
        let fo = base + (g.reserved as usize + f * fatsz as usize) * 512;
        if g.fat32 {
            w32(&mut img, fo, 0x0FFF_FFF8);
            w32(&mut img, fo + 4, 0x0FFF_FFFF);
            w32(&mut img, fo + 4 * g.root_cluster as usize, 0x0FFF_FFFF);
        } else {
            w16(&mut img, fo, 0xFFF8);
            w16(&mut img, fo + 2, 0xFFFF);
        }
    }
    if let Some(free) = g.leave_free {
        // a filler file occupying the top clusters, leaving `free` clusters free
        let used_by_root = if g.fat32 { 1 } else { 0 };
        let fill = g.clusters - free - used_by_root;
        if fill > 0 {
            let first = g.clusters + 2 - fill;
            for f in 0..g.nfats as usize {
                let fo = base + (g.reserved as usize + f * fatsz as usize) * 512;
                for c in first..g.clusters + 2 {
                    let nxt = if c == g.clusters + 1 { 0x0FFF_FFFF } else { c + 1 };
                    if g.fat32 {
                        w32(&mut img, fo + 4 * c as usize, nxt);
                    } else {
                        w16(&mut img, fo + 2 * c as usize, nxt as u16);
                    }
                }
            }
            // dir entry in root
            let root_off = if g.fat32 {
                base + (g.reserved as usize + g.nfats as usize * fatsz as usize) * 512
                    + (g.root_cluster as usize - 2) * g.spc as usize * 512
            } else {
                base + (g.reserved as usize + g.nfats as usize * fatsz as usize) * 512
            };
            let e = &mut img[root_off..root_off + 32];
            e[0..11].copy_from_slice(b"FILLER  BIN");
            e[11] = 0x21; // read only + archive
            w16(e, 20, (first >> 16) as u16);
            w16(e, 26, first as u16);
            let sz = (fill as u64 * g.spc as u64 * 512).min(0xFFFF_FFFF) as u32;
            w32(e, 28, sz);
        }
    }
    img
}

pub struct Fs<'a> {
    img: &'a [u8],
    base: usize,
    fat32: bool,
    spc: usize,
    fat_start: usize,
    fatsz: usize,
    root_start: usize,
    root_blocks: usize,
    root_entries: usize,
    data_start: usize,
    clusters: u32,
    root_cluster: u32,
}

impl<'a> Fs<'a> {
    pub fn new(img: &'a [u8]) -> Fs<'a> {
        let lba = r32(img, 446 + 8) as usize;
        let base = lba * 512;
        let b = &img[base..base + 512];
        let spc = b[13] as usize;
        let reserved = r16(b, 14) as usize;
        let nfats = b[16] as usize;
        let root_entries = r16(b, 17) as usize;
        let total = if r16(b, 19) != 0 {
            r16(b, 19) as usize
        } else {
            r32(b, 32) as usize
        };
        let fatsz = if r16(b, 22) != 0 {
            r16(b, 22) as usize
        } else {
            r32(b, 36) as usize
        };
        let root_blocks = (root_entries * 32 + 511) / 512;
        let data_start = reserved + nfats * fatsz + root_blocks;
        let clusters = ((total - data_start) / spc) as u32;
        let fat32 = clusters >= 65525;
        Fs {
            img,
            base,
            fat32,
            spc,
            fat_start: reserved,
            fatsz,
            root_start: reserved + nfats * fatsz,
            root_blocks,
            root_entries,
            data_start,
            clusters,
            root_cluster: if fat32 { r32(b, 44) } else { 0 },
        }
    }
    pub fn fat(&self, c: u32) -> u32 {
        let fo = self.base + self.fat_start * 512;
        if self.fat32 {
            r32(self.img, fo + 4 * c as usize) & 0x0FFF_FFFF
        } else {
            let v = r16(self.img, fo + 2 * c as usize) as u32;
            if v >= 0xFFF7 {
                v | 0x0FFF_0000
            } else {
                v
            }
        }
    }
    fn cluster_bytes(&self, c: u32) -> &[u8] {
        let o = self.base + (self.data_start + (c as usize - 2) * self.spc) * 512;
        &self.img[o..o + self.spc * 512]
    }
    pub fn cluster_abs_block(&self, c: u32) -> u32 {
        (self.base / 512 + self.data_start + (c as usize - 2) * self.spc) as u32
    }
}

#[derive(Default)]
pub struct Report {
    pub errors: Vec<String>,
    pub lost_clusters: u32,
    pub files: usize,
    pub dirs: usize,
}

/// open: map (abs entry block, offset) -> length known through the API (pending state)
pub fn fsck(img: &[u8], open: &HashMap<(u32, u32), u32>) -> Report {
    let fs = Fs::new(img);
    let mut rep = Report::default();
    let mut owner: Owner = Owner::new(fs.clusters);

    // returns chain
    fn walk(
        fs: &Fs,
        start: u32,
        who: &str,
        owner: &mut Owner,
        rep: &mut Report,
    ) -> Vec<u32> {
        let mut chain = vec![];
        let mut c = start;
        loop {
            if c < 2 || c >= fs.clusters + 2 {
                rep.errors
                    .push(format!("{who}: chain reaches out-of-range cluster {c:#x}"));
                break;
            }
            if let Some(o) = owner.get(c) {
                if o == who {
                    rep.errors.push(format!("{who}: chain has a cycle at {c}"));
                } else {
                    rep.errors
                        .push(format!("{who}: cluster {c} cross-linked with {o}"));
                }
                break;
            }
            owner.insert(c, who);
            chain.push(c);
            let n = fs.fat(c);
            if n >= 0x0FFF_FFF8 {
                break;
            }
            if n == 0 {
                rep.errors
                    .push(format!("{who}: chain passes through free entry (after {c})"));
                break;
            }
            if n == 1 {
                rep.errors
                    .push(format!("{who}: chain passes through reserved entry (after {c})"));
                break;
            }
            if n == 0x0FFF_FFF7 {
                rep.errors
                    .push(format!("{who}: chain passes through bad entry (after {c})"));
                break;
            }
            c = n;
        }
        chain
    }

    // (path, slots bytes with abs block/offset, self cluster (0 root), parent cluster)
    struct Work {
        path: String,
        chain: Vec<u32>,
        is_root16: bool,
        me: u32,
        parent: u32,
    }
    let mut stack = vec![];
    if fs.fat32 {
        let chain = walk(&fs, fs.root_cluster, "/", &mut owner, &mut rep);
        stack.push(Work {
            path: "/".into(),
            chain,
            is_root16: false,
            me: 0,
            parent: 0,
        });
    } else {
        stack.push(Work {
            path: "/".into(),
            chain: vec![],
            is_root16: true,
            me: 0,
            parent: 0,
        });
    }
    while let Some(w) = stack.pop() {
        rep.dirs += 1;
        // collect slots
        let mut slots: Vec<(&[u8], u32, u32)> = vec![];
        if w.is_root16 {
            let o = fs.base + fs.root_start * 512;
            for i in 0..fs.root_entries {
                let blk = (fs.base / 512 + fs.root_start + i / 16) as u32;
                slots.push((&img[o + i * 32..o + i * 32 + 32], blk, (i % 16) as u32 * 32));
            }
        } else {
            for &c in &w.chain {
                let bytes = fs.cluster_bytes(c);
                let b0 = fs.cluster_abs_block(c);
                for i in 0..bytes.len() / 32 {
                    slots.push((&bytes[i * 32..i * 32 + 32], b0 + (i / 16) as u32, (i % 16) as u32 * 32));
                }
            }
        }
        let mut ended = false;
        let mut names: HashMap<[u8; 11], usize> = HashMap::new();
        let is_sub = w.path != "/";
        for (idx, (s, blk, off)) in slots.iter().enumerate() {
            if ended {
                if s.iter().any(|&b| b != 0) {
                    rep.errors.push(format!(
                        "{}: slot {idx} is not empty but follows the end-of-directory marker",
                        w.path
                    ));
                }
                continue;
            }
            if s[0] == 0 {
                ended = true;
                if s.iter().any(|&b| b != 0) {
                    rep.errors
                        .push(format!("{}: end marker slot {idx} has other bytes set", w.path));
                }
                continue;
            }
            if s[0] == 0xE5 {
                continue;
            }
            let attr = s[11];
            if attr & 0x0F == 0x0F {
                continue; // LFN
            }
            let mut name = [0u8; 11];
            name.copy_from_slice(&s[0..11]);
            let pname = String::from_utf8_lossy(&name).to_string();
            if attr & 0x08 != 0 {
                // volume label
                let cl = ((r16(s, 20) as u32) << 16) | r16(s, 26) as u32;
                if cl != 0 || r32(s, 28) != 0 {
                    rep.errors.push(format!(
                        "{}: volume label entry '{pname}' owns cluster {cl} / size {}",
                        w.path,
                        r32(s, 28)
                    ));
                }
                continue;
            }
            if let Some(prev) = names.insert(name, idx) {
                rep.errors.push(format!(
                    "{}: duplicate name '{pname}' in slots {prev} and {idx}",
                    w.path
                ));
            }
            let mut cl = r16(s, 26) as u32;
            if fs.fat32 {
                cl |= (r16(s, 20) as u32) << 16;
            }
            let size = r32(s, 28);
            let is_dir = attr & 0x10 != 0;
            let dot = &name == b".          ";
            let dotdot = &name == b"..         ";
            if is_sub && idx == 0 {
                if !dot || !is_dir || cl != w.me {
                    rep.errors.push(format!(
                        "{}: slot 0 is not a correct '.' entry (name '{pname}' attr {attr:#x} cluster {cl}, expected {})",
                        w.path, w.me
                    ));
                }
                continue;
            }
            if is_sub && idx == 1 {
                if !dotdot || !is_dir || cl != w.parent {
                    rep.errors.push(format!(
                        "{}: slot 1 is not a correct '..' entry (name '{pname}' attr {attr:#x} cluster {cl}, expected {})",
                        w.path, w.parent
                    ));
                }
                continue;
            }
            if dot || dotdot {
                rep.errors.push(format!(
                    "{}: slot {idx} holds a '{}' entry (attr {attr:#x}) where none belongs",
                    w.path,
                    pname.trim_end()
                ));
                continue;
            }
            if s[0] == b' ' {
                rep.errors
                    .push(format!("{}: name starting with a space in slot {idx}", w.path));
            }
            let who = format!("{}{}", w.path, pname.trim_end());
            if is_dir {
                if cl == 0 {
                    rep.errors.push(format!("{who}: directory with start cluster 0"));
                    continue;
                }
                let chain = walk(&fs, cl, &who, &mut owner, &mut rep);
                if size != 0 {
                    rep.errors.push(format!("{who}: directory with size {size}"));
                }
                if !chain.is_empty() && chain[0] == cl {
                    stack.push(Work {
                        path: format!("{who}/"),
                        chain,
                        is_root16: false,
                        me: cl,
                        parent: w.me,
                    });
                }
            } else {
                rep.files += 1;
                let (size, pending) = match open.get(&(*blk, *off)) {
                    Some(&l) => (l, true),
                    None => (size, false),
                };
                if cl == 0 {
                    if size != 0 && !pending {
                        rep.errors
                            .push(format!("{who}: size {size} but no start cluster"));
                    }
                    continue;
                }
                let chain = walk(&fs, cl, &who, &mut owner, &mut rep);
                let cap = chain.len() as u64 * fs.spc as u64 * 512;
                if (size as u64) > cap {
                    rep.errors.push(format!(
                        "{who}: size {size} but the chain holds only {cap} bytes"
                    ));
                }
            }
        }
        if is_sub && slots.len() < 2 {
            rep.errors.push(format!("{}: directory too short", w.path));
        }
    }
    for c in 2..fs.clusters + 2 {
        let v = fs.fat(c);
        if v != 0 && v != 0x0FFF_FFF7 && owner.get(c).is_none() {
            rep.lost_clusters += 1;
        }
    }
    rep
}

// ---------------------------------------------------------------------------

pub struct Owner {
    names: Vec<String>,
    map: Vec<u32>,
}
impl Owner {
    fn new(clusters: u32) -> Owner {
        Owner { names: vec![], map: vec![0; clusters as usize + 2] }
    }
    fn get(&self, c: u32) -> Option<&str> {
        match self.map[c as usize] {
            0 => None,
            n => Some(&self.names[n as usize - 1]),
        }
    }
    fn insert(&mut self, c: u32, who: &str) {
        if self.names.last().map(|s| s.as_str()) != Some(who) {
            self.names.push(who.to_string());
        }
        self.map[c as usize] = self.names.len() as u32;
    }
}

pub struct Rng(u64);
impl Rng {
    pub fn next(&mut self) -> u32 {
        self.0 = self
            .0
            .wrapping_mul(6364136223846793005)
            .wrapping_add(1442695040888963407);
        (self.0 >> 33) as u32
    }
    pub fn below(&mut self, n: u32) -> u32 {
        self.next() % n
    }
}

const NAMES: &[&str] = &[
    "A", "B.TXT", "C", "a", "D1", "D2", "D3", "LONGNAME.EXT", "A.", "X.Y", "FILLER.BIN", "NO NAME",
    "NONAME", "E", "F", "G", "H",
];
const ODD_NAMES: &[&str] = &[".", "..", "", "\u{e5}", "\u{e5}A", "\u{c5}A"];

type Vm = VolumeManager<Disk, Clock, 6, 4, 1>;

fn run(geo: Geo, seed: u64, steps: usize, odd: bool, strict_lost: bool) -> Result<(), String> {
    run2(geo, seed, steps, if odd { ODD_NAMES } else { &[] }, strict_lost, false)
}

fn lfn_csum(n: &[u8; 11]) -> u8 {
    let mut r = 0u8;
    for b in n {
        r = r.rotate_right(1).wrapping_add(*b);
    }
    r
}

/// add a volume label and a long-named empty file to the root directory
fn decorate(img: &mut Vec<u8>) {
    let (off, _n) = {
        let fs = Fs::new(img);
        if fs.fat32 {
            ((fs.cluster_abs_block(fs.root_cluster) as usize) * 512, 16 * fs.spc)
        } else {
            (fs.base + fs.root_start * 512, fs.root_entries)
        }
    };
    let mut slot = 0;
    while img[off + slot * 32] != 0 {
        slot += 1;
    }
    let mut put = |e: [u8; 32]| {
        img[off + slot * 32..off + slot * 32 + 32].copy_from_slice(&e);
        slot += 1;
    };
    let mut e = [0u8; 32];
    e[0..11].copy_from_slice(b"MYLABEL    ");
    e[11] = 0x08;
    put(e);
    let sfn = *b"LONGFI~1TXT";
    let name: Vec<u16> = "longfilename.txt".encode_utf16().collect();
    let mut units = name.clone();
    units.push(0);
    while units.len() % 13 != 0 {
        units.push(0xFFFF);
    }
    let n = units.len() / 13;
    for i in (0..n).rev() {
        let mut l = [0u8; 32];
        l[0] = (i as u8 + 1) | if i == n - 1 { 0x40 } else { 0 };
        l[11] = 0x0F;
        l[13] = lfn_csum(&sfn);
        let pos = [1, 3, 5, 7, 9, 14, 16, 18, 20, 22, 24, 28, 30];
        for (k, p) in pos.iter().enumerate() {
            let u = units[i * 13 + k];
            l[*p] = u as u8;
            l[*p + 1] = (u >> 8) as u8;
        }
        put(l);
    }
    let mut e = [0u8; 32];
    e[0..11].copy_from_slice(&sfn);
    e[11] = 0x20;
    put(e);
}

fn run2(geo: Geo, seed: u64, steps: usize, odd_names: &[&'static str], strict_lost: bool, deco: bool) -> Result<(), String> {
    let odd = !odd_names.is_empty();
    let img = Rc::new(RefCell::new(mkfs(geo)));
    if deco {
        decorate(&mut img.borrow_mut());
    }
    {
        let rep = fsck(&img.borrow(), &HashMap::new());
        assert!(rep.errors.is_empty(), "mkfs bad: {:?}", rep.errors);
    }
    let vm: Vm = VolumeManager::new_with_limits(Disk(img.clone()), Clock, 100);
    let vol = vm.open_raw_volume(VolumeIdx(0)).map_err(|e| format!("open vol {e:?}"))?;
    let root = vm.open_root_dir(vol).unwrap();
    let mut dirs: Vec<(RawDirectory, String)> = vec![(root, "/".into())];
    let mut files: Vec<(RawFile, String)> = vec![];
    let mut rng = Rng(seed);
    let mut hist: Vec<String> = vec![];
    let buf = vec![0xA5u8; 70000];
    for step in 0..steps {
        let pick_name = |rng: &mut Rng| -> &'static str {
            if odd && rng.below(6) == 0 {
                odd_names[rng.below(odd_names.len() as u32) as usize]
            } else {
                NAMES[rng.below(NAMES.len() as u32) as usize]
            }
        };
        let op = rng.below(100);
        let d = rng.below(dirs.len() as u32) as usize;
        let desc;
        if op < 22 {
            let name = pick_name(&mut rng);
            let mode = match rng.below(6) {
                0 => Mode::ReadOnly,
                1 => Mode::ReadWriteAppend,
                2 => Mode::ReadWriteTruncate,
                3 => Mode::ReadWriteCreate,
                4 => Mode::ReadWriteCreateOrTruncate,
                _ => Mode::ReadWriteCreateOrAppend,
            };
            let r = vm.open_file_in_dir(dirs[d].0, name, mode);
            desc = format!("open_file_in_dir({}, {name:?}, {mode:?}) -> {:?}", dirs[d].1, r);
            if let Ok(f) = r {
                files.push((f, format!("{}{}", dirs[d].1, name)));
            }
        } else if op < 45 && !files.is_empty() {
            let f = rng.below(files.len() as u32) as usize;
            let len = match rng.below(5) {
                0 => 0,
                1 => rng.below(600) as usize,
                2 => geo.spc as usize * 512,
                3 => rng.below(5000) as usize,
                _ => rng.below(70000) as usize,
            };
            let r = vm.write(files[f].0, &buf[..len]);
            desc = format!("write({}, {len}) -> {:?}", files[f].1, r);
        } else if op < 52 && !files.is_empty() {
            let f = rng.below(files.len() as u32) as usize;
            let len = vm.file_length(files[f].0).unwrap();
            let to = if len == 0 { 0 } else { rng.below(len + 1) };
            let r = vm.file_seek_from_start(files[f].0, to);
            desc = format!("seek({}, {to}) -> {:?}", files[f].1, r);
        } else if op < 64 && !files.is_empty() {
            let f = rng.below(files.len() as u32) as usize;
            let (h, n) = files.swap_remove(f);
            let r = vm.close_file(h);
            desc = format!("close_file({n}) -> {:?}", r);
        } else if op < 68 && !files.is_empty() {
            let f = rng.below(files.len() as u32) as usize;
            let r = vm.flush_file(files[f].0);
            desc = format!("flush_file({}) -> {:?}", files[f].1, r);
        } else if op < 78 {
            let name = pick_name(&mut rng);
            let r = vm.delete_file_in_dir(dirs[d].0, name);
            desc = format!("delete_file_in_dir({}, {name:?}) -> {:?}", dirs[d].1, r);
        } else if op < 88 {
            let name = pick_name(&mut rng);
            let r = vm.make_dir_in_dir(dirs[d].0, name);
            desc = format!("make_dir_in_dir({}, {name:?}) -> {:?}", dirs[d].1, r);
        } else if op < 95 {
            let name = if rng.below(4) == 0 { ".." } else { pick_name(&mut rng) };
            let r = vm.open_dir(dirs[d].0, name);
            desc = format!("open_dir({}, {name:?}) -> {:?}", dirs[d].1, r);
            if let Ok(h) = r {
                dirs.push((h, format!("{}{}/", dirs[d].1, name)));
            }
        } else if dirs.len() > 1 {
            let i = 1 + rng.below(dirs.len() as u32 - 1) as usize;
            let (h, n) = dirs.swap_remove(i);
            let r = vm.close_dir(h);
            desc = format!("close_dir({n}) -> {:?}", r);
        } else {
            continue;
        }
        hist.push(format!("#{step} {desc}"));
        // pending state
        let mut open = HashMap::new();
        // we cannot see the entry slot through the API, so find it by name is not possible either;
        // approximate: flush all files, then check.  (variant B: no flush, lenient)
        let _ = &mut open;
        for (h, _) in &files {
            let _ = vm.flush_file(*h);
        }
        let rep = fsck(&img.borrow(), &open);
        let lost_bad = strict_lost && files.is_empty() && rep.lost_clusters > 0;
        if !rep.errors.is_empty() || lost_bad {
            let tail: Vec<_> = hist.iter().rev().take(25).rev().cloned().collect();
            return Err(format!(
                "geo {geo:?} seed {seed}\nERRORS: {:#?}\nlost={}\nhistory tail:\n{}",
                rep.errors,
                rep.lost_clusters,
                tail.join("\n")
            ));
        }
    }
    Ok(())
}

fn geos() -> Vec<Geo> {
    vec![
        Geo { fat32: false, spc: 1, reserved: 1, nfats: 2, root_entries: 16, clusters: 4085, lba_start: 1, root_cluster: 0, leave_free: Some(12) },
        Geo { fat32: false, spc: 2, reserved: 4, nfats: 2, root_entries: 32, clusters: 4100, lba_start: 63, root_cluster: 0, leave_free: Some(9) },
        Geo { fat32: false, spc: 1, reserved: 1, nfats: 1, root_entries: 512, clusters: 5000, lba_start: 1, root_cluster: 0, leave_free: Some(40) },
        Geo { fat32: true, spc: 1, reserved: 32, nfats: 2, root_entries: 0, clusters: 65525, lba_start: 1, root_cluster: 2, leave_free: Some(14) },
        Geo { fat32: true, spc: 2, reserved: 32, nfats: 2, root_entries: 0, clusters: 65600, lba_start: 8, root_cluster: 5, leave_free: Some(10) },
        Geo { fat32: true, spc: 1, reserved: 32, nfats: 1, root_entries: 0, clusters: 65530, lba_start: 1, root_cluster: 2, leave_free: Some(60) },
    ]
}

#[test]
fn random_normal_names() {
    let mut fails = vec![];
    for g in geos() {
        for seed in 1..=12u64 {
            if let Err(e) = run(g, seed, 400, false, true) {
                fails.push(e);
                break;
            }
        }
    }
    for f in &fails {
        println!("-----\n{f}");
    }
    assert!(fails.is_empty(), "{} failures", fails.len());
}

#[test]
fn random_odd_names() {
    let mut fails = vec![];
    for g in geos() {
        for seed in 1..=6u64 {
            if let Err(e) = run(g, seed, 300, true, false) {
                fails.push(e);
                break;
            }
        }
    }
    for f in &fails {
        println!("-----\n{f}");
    }
    assert!(fails.is_empty(), "{} failures", fails.len());
}

#[test]
fn random_e5_names() {
    let mut fails = vec![];
    for g in geos() {
        for seed in 1..=4u64 {
            if let Err(e) = run2(g, seed, 300, &["\u{e5}", "\u{e5}A", "\u{c5}A", "\u{e5}.\u{e5}"], true, false) {
                fails.push(e);
                break;
            }
        }
    }
    for f in &fails {
        println!("-----\n{f}");
    }
    assert!(fails.is_empty(), "{} failures", fails.len());
}

#[test]
fn random_label_and_lfn() {
    let mut fails = vec![];
    for g in geos() {
        for seed in 1..=4u64 {
            if let Err(e) = run2(g, seed, 300, &["MYLABEL", "LONGFI~1.TXT", "LONGFILE.TXT"], true, true) {
                fails.push(e);
                break;
            }
        }
    }
    for f in &fails {
        println!("-----\n{f}");
    }
    assert!(fails.is_empty(), "{} failures", fails.len());
}

/// grow one directory far past one cluster, then fill the volume to the last cluster and go on
#[test]
fn directed_grow_and_fill() {
    let mut fails = vec![];
    for g in geos() {
        let img = Rc::new(RefCell::new(mkfs(g)));
        let vm: Vm = VolumeManager::new_with_limits(Disk(img.clone()), Clock, 100);
        let vol = vm.open_raw_volume(VolumeIdx(0)).unwrap();
        let root = vm.open_root_dir(vol).unwrap();
        let log = RefCell::new(vec![]);
        let mut check = |what: String, img: &Rc<RefCell<Vec<u8>>>| -> bool {
            log.borrow_mut().push(what);
            let rep = fsck(&img.borrow(), &HashMap::new());
            if !rep.errors.is_empty() {
                fails.push(format!("{g:?}\n{:#?}\n{}", rep.errors, log.borrow().iter().rev().take(12).rev().cloned().collect::<Vec<_>>().join("\n")));
                return false;
            }
            true
        };
        let r = vm.make_dir_in_dir(root, "SUB");
        if !check(format!("mkdir SUB {r:?}"), &img) { continue; }
        let sub = vm.open_dir(root, "SUB").unwrap();
        let mut ok = true;
        for i in 0..70 {
            let name = format!("N{i}");
            let r = if i % 3 == 0 {
                vm.make_dir_in_dir(sub, name.as_str())
            } else {
                vm.open_file_in_dir(sub, name.as_str(), Mode::ReadWriteCreate).map(|f| {
                    let w = vm.write(f, &[1u8; 700]);
                    let c = vm.close_file(f);
                    log.borrow_mut().push(format!("  write {w:?} close {c:?}"));
                })
            };
            if !check(format!("create SUB/{name} -> {r:?}"), &img) { ok = false; break; }
        }
        if !ok { continue; }
        // root too
        for i in 0..40 {
            let name = format!("R{i}");
            let r = if i % 2 == 0 {
                vm.make_dir_in_dir(root, name.as_str())
            } else {
                vm.open_file_in_dir(root, name.as_str(), Mode::ReadWriteCreate).map(|f| {
                    let w = vm.write(f, &[1u8; 100]);
                    let c = vm.close_file(f);
                    log.borrow_mut().push(format!("  write {w:?} close {c:?}"));
                })
            };
            if !check(format!("create /{name} -> {r:?}"), &img) { ok = false; break; }
        }
        if !ok { continue; }
        // delete some, truncate some, recreate
        for i in 0..70 {
            if i % 3 == 1 {
                let name = format!("N{i}");
                let r = vm.delete_file_in_dir(sub, name.as_str());
                if !check(format!("delete SUB/{name} -> {r:?}"), &img) { ok = false; break; }
            }
            if i % 3 == 2 {
                let name = format!("N{i}");
                let r = vm.open_file_in_dir(sub, name.as_str(), Mode::ReadWriteTruncate).map(|f| vm.close_file(f));
                if !check(format!("truncate SUB/{name} -> {r:?}"), &img) { ok = false; break; }
            }
        }
        if !ok { continue; }
        for i in 0..40 {
            let name = format!("M{i}");
            let r = vm.make_dir_in_dir(sub, name.as_str());
            if !check(format!("mkdir SUB/{name} -> {r:?}"), &img) { break; }
        }
    }
    for f in &fails {
        println!("-----\n{f}");
    }
    assert!(fails.is_empty(), "{} failures", fails.len());
}

#[test]
fn direct_label() {
    for g in geos().into_iter().take(1) {
        let img = Rc::new(RefCell::new(mkfs(g)));
        decorate(&mut img.borrow_mut());
        let vm: Vm = VolumeManager::new_with_limits(Disk(img.clone()), Clock, 100);
        let vol = vm.open_raw_volume(VolumeIdx(0)).unwrap();
        let root = vm.open_root_dir(vol).unwrap();
        vm.iterate_dir(root, |e| println!("{:?} {:?} {:?}", e.name, e.attributes, e.cluster)).unwrap();
        let f = vm.open_file_in_dir(root, "MYLABEL", Mode::ReadWriteAppend);
        println!("open -> {f:?}");
        let f = f.unwrap();
        println!("write -> {:?}", vm.write(f, b"hello"));
        println!("close -> {:?}", vm.close_file(f));
        let rep = fsck(&img.borrow(), &HashMap::new());
        println!("{:?} lost {}", rep.errors, rep.lost_clusters);
        println!("delete -> {:?}", vm.delete_file_in_dir(root, "MYLABEL"));
        vm.iterate_dir(root, |e| println!("{:?} {:?} {:?}", e.name, e.attributes, e.cluster)).unwrap();
    }
}

#[test]
fn random_roomy() {
    let mut fails = vec![];
    let gs = vec![
        Geo { fat32: false, spc: 1, reserved: 1, nfats: 2, root_entries: 32, clusters: 4085, lba_start: 1, root_cluster: 0, leave_free: Some(300) },
        Geo { fat32: false, spc: 4, reserved: 1, nfats: 2, root_entries: 64, clusters: 4090, lba_start: 1, root_cluster: 0, leave_free: Some(100) },
        Geo { fat32: true, spc: 1, reserved: 32, nfats: 2, root_entries: 0, clusters: 65525, lba_start: 1, root_cluster: 2, leave_free: Some(300) },
        Geo { fat32: true, spc: 8, reserved: 32, nfats: 2, root_entries: 0, clusters: 65525, lba_start: 1, root_cluster: 2, leave_free: Some(50) },
    ];
    for g in gs {
        for seed in 100..=120u64 {
            if let Err(e) = run2(g, seed, 600, &[], true, false) {
                fails.push(e);
                break;
            }
        }
    }
    for f in &fails {
        println!("-----\n{f}");
    }
    assert!(fails.is_empty(), "{} failures", fails.len());
}

#[test]
fn random_exotic() {
    let mut fails = vec![];
    let gs = vec![
        Geo { fat32: false, spc: 3, reserved: 7, nfats: 3, root_entries: 48, clusters: 4200, lba_start: 5, root_cluster: 0, leave_free: Some(30) },
        Geo { fat32: false, spc: 1, reserved: 1, nfats: 2, root_entries: 24, clusters: 4085, lba_start: 1, root_cluster: 0, leave_free: Some(30) },
        Geo { fat32: false, spc: 128, reserved: 1, nfats: 2, root_entries: 16, clusters: 4085, lba_start: 1, root_cluster: 0, leave_free: Some(30) },
        Geo { fat32: false, spc: 1, reserved: 1, nfats: 2, root_entries: 16, clusters: 65524, lba_start: 1, root_cluster: 0, leave_free: Some(30) },
        Geo { fat32: true, spc: 3, reserved: 9, nfats: 3, root_entries: 0, clusters: 65540, lba_start: 1, root_cluster: 7, leave_free: Some(30) },
    ];
    for g in gs {
        for seed in 200..=206u64 {
            if let Err(e) = run2(g, seed, 400, &[], true, false) {
                fails.push(e);
                break;
            }
        }
    }
    for f in &fails {
        println!("-----\n{f}");
    }
    assert!(fails.is_empty(), "{} failures", fails.len());
}

#[test]
fn direct_root24() {
    let g = Geo { fat32: false, spc: 1, reserved: 1, nfats: 2, root_entries: 24, clusters: 4085, lba_start: 1, root_cluster: 0, leave_free: None };
    let img = Rc::new(RefCell::new(mkfs(g)));
    let vm: Vm = VolumeManager::new_with_limits(Disk(img.clone()), Clock, 100);
    let vol = vm.open_raw_volume(VolumeIdx(0)).unwrap();
    let root = vm.open_root_dir(vol).unwrap();
    let mut made = 0;
    for i in 0..40 {
        let name = format!("F{i}");
        match vm.open_file_in_dir(root, name.as_str(), Mode::ReadWriteCreate) {
            Ok(f) => {
                vm.write(f, b"x").unwrap();
                vm.close_file(f).unwrap();
                made += 1;
            }
            Err(e) => {
                println!("create {name} -> {e:?}");
                break;
            }
        }
    }
    let rep = fsck(&img.borrow(), &HashMap::new());
    println!("made {made}; fsck sees {} files, lost clusters {}; {:?}", rep.files, rep.lost_clusters, rep.errors);
}

#[test]
fn direct_lfn_orphan() {
    let g = geos()[0];
    let img = Rc::new(RefCell::new(mkfs(g)));
    decorate(&mut img.borrow_mut());
    let vm: Vm = VolumeManager::new_with_limits(Disk(img.clone()), Clock, 100);
    let vol = vm.open_raw_volume(VolumeIdx(0)).unwrap();
    let root = vm.open_root_dir(vol).unwrap();
    println!("delete -> {:?}", vm.delete_file_in_dir(root, "LONGFI~1.TXT"));
    let f = vm.open_file_in_dir(root, "LONGFI~1.TXT", Mode::ReadWriteCreate).unwrap();
    vm.close_file(f).unwrap();
    let mut storage = [0u8; 128];
    let mut lfn = embedded_sdmmc::LfnBuffer::new(&mut storage);
    vm.iterate_dir_lfn(root, &mut lfn, |e, l| println!("{:?} {:?}", e.name, l)).unwrap();
    let b = img.borrow();
    let fs = Fs::new(&b);
    let o = fs.base + fs.root_start * 512;
    for i in 0..6 { println!("{:02x?}", &b[o + i * 32..o + i * 32 + 12]); }
}
