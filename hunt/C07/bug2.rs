//! C07 bug 2: "." / ".." / "" can be created as regular FILES (and as
//! directories) in the root directory.
//!
//! `ShortFileName::create_from_str` maps "." and the EMPTY string to the
//! special name ".          " (this directory) and ".." to "..         "
//! (parent directory).  The library itself documents that these names denote
//! directories (`open_dir`: 'Passing "." as the name results in opening the
//! parent_dir a second time').  In a sub-directory the on-disk "." and ".."
//! entries make every file-open refuse them (OpenedDirAsFile /
//! FileAlreadyExists).  The root directory has no such entries, so
//! `open_file_in_dir` finds nothing and ...
//!
//!   open_file_in_dir(root, ".",  ReadWriteCreate)            -> Ok   (creates a FILE named ".")
//!   open_file_in_dir(root, "..", ReadWriteCreateOrAppend)    -> Ok   (creates a FILE named "..")
//!   open_file_in_dir(root, "",   ReadWriteCreateOrTruncate)  -> Ok   (empty name: creates a FILE named ".")
//!   make_dir_in_dir(root, ".")                               -> Ok   (a directory named "." that
//!                                                                     delete_file_in_dir refuses to remove)
//!
//! Violated: "a directory cannot be opened or deleted as a file" - the name
//! that designates the directory itself is opened (created) as a file - and
//! the quantification "all valid and invalid 8.3 names": the empty name and
//! the dot names are not valid 8.3 file names, the call must be refused
//! (FilenameError / OpenedDirAsFile) and "a refused call changes nothing on
//! the medium".  Instead the root directory gains entries called "." / "..",
//! which no FAT implementation accepts in a root directory (fsck.fat: "Bad
//! short file name").
//!
//! Put this file in tests/ next to tests/utils and run
//! `cargo test --offline --test bug2`.

use embedded_sdmmc::{Mode, VolumeIdx, VolumeManager};

mod utils;

type VM = VolumeManager<utils::RamDisk<Vec<u8>>, utils::TestTimeSource, 4, 4, 1>;

#[test]
fn dot_names_cannot_be_created_as_files_in_root() {
    let mut failures: Vec<String> = Vec::new();

    for vol in 0..2usize {
        for (name, mode) in [
            (".", Mode::ReadWriteCreate),
            ("..", Mode::ReadWriteCreateOrAppend),
            ("", Mode::ReadWriteCreateOrTruncate),
        ] {
            let disk = utils::make_block_device(utils::DISK_SOURCE).unwrap();
            let vm: VM =
                VolumeManager::new_with_limits(disk, utils::make_time_source(), 0xAA00_0000);
            let v = vm.open_raw_volume(VolumeIdx(vol)).unwrap();
            let root = vm.open_root_dir(v).unwrap();

            // The same call in a sub-directory is (correctly) refused:
            let sub = vm.open_dir(root, "TEST").unwrap();
            assert!(vm.open_file_in_dir(sub, name, mode).is_err());
            vm.close_dir(sub).unwrap();

            let mut before = Vec::new();
            vm.iterate_dir(root, |de| before.push(format!("{}", de.name))).unwrap();

            let r = vm.open_file_in_dir(root, name, mode);
            if let Ok(f) = r {
                failures.push(format!(
                    "vol {vol}: open_file_in_dir(root, {name:?}, {mode:?}) = Ok(..), expected a refusal"
                ));
                let _ = vm.write(f, b"data");
                let _ = vm.close_file(f);
            }

            let mut after = Vec::new();
            vm.iterate_dir(root, |de| after.push(format!("{}", de.name))).unwrap();
            if before != after {
                failures.push(format!(
                    "vol {vol}: root listing changed by open_file_in_dir(root, {name:?}, {mode:?}): now {after:?}"
                ));
            }
        }

        // the same hole in make_dir_in_dir; the result cannot even be deleted again
        let disk = utils::make_block_device(utils::DISK_SOURCE).unwrap();
        let vm: VM = VolumeManager::new_with_limits(disk, utils::make_time_source(), 0xAA00_0000);
        let v = vm.open_raw_volume(VolumeIdx(vol)).unwrap();
        let root = vm.open_root_dir(v).unwrap();
        let r = vm.make_dir_in_dir(root, ".");
        if r.is_ok() {
            failures.push(format!(
                "vol {vol}: make_dir_in_dir(root, \".\") = Ok(()), root now lists a directory named \".\""
            ));
        }
    }

    assert!(
        failures.is_empty(),
        "special directory names created as files in the root directory:\n  {}",
        failures.join("\n  ")
    );
}
