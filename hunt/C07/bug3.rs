//! C07 bug 3 (interpretive, lower confidence): a file carrying the READ-ONLY
//! attribute is protected against every writing open mode, but
//! `delete_file_in_dir` destroys it without looking at the attribute.
//!
//! The property is titled "Open modes, READ-ONLY PROTECTION and file/directory
//! typing behave as documented" and states "Files carrying the read-only
//! attribute cannot be opened for writing".  The library enforces that in
//! open_file_in_dir (ReadWriteAppend / ReadWriteTruncate / CreateOrAppend /
//! CreateOrTruncate all give Err(ReadOnly), nothing is written).  Yet the far
//! more destructive delete_file_in_dir() (src/volume_mgr.rs ~661-699) only
//! checks "is a directory" and "is open": a read-only file is unlinked and its
//! cluster chain is freed.  So the protection the attribute is meant to give
//! ("truncate is refused") is bypassed by delete + ReadWriteCreate, which
//! has exactly the effect of the refused ReadWriteTruncate.  DOS, Windows and
//! FatFs (FR_DENIED) refuse to delete read-only files.
//!
//! Put this file in tests/ next to tests/utils and run
//! `cargo test --offline --test bug3`.

use embedded_sdmmc::{Block, BlockDevice, BlockIdx, Error, Mode, VolumeIdx, VolumeManager};

mod utils;

type VM = VolumeManager<utils::RamDisk<Vec<u8>>, utils::TestTimeSource, 4, 4, 1>;

#[test]
fn read_only_file_is_protected_from_delete() {
    // README.TXT on volume 0 (FAT16): directory entry in block 2564, offset 0.
    // Set its attribute byte to ARCHIVE | READ_ONLY before mounting.
    let disk = utils::make_block_device(utils::DISK_SOURCE).unwrap();
    let mut b = [Block::new()];
    disk.read(&mut b, BlockIdx(2564)).unwrap();
    assert_eq!(&b[0][0..11], b"README  TXT");
    b[0][11] = 0x21;
    disk.write(&b, BlockIdx(2564)).unwrap();

    let vm: VM = VolumeManager::new_with_limits(disk, utils::make_time_source(), 0xAA00_0000);
    let v = vm.open_raw_volume(VolumeIdx(0)).unwrap();
    let root = vm.open_root_dir(v).unwrap();

    let e = vm.find_directory_entry(root, "README.TXT").unwrap();
    assert!(e.attributes.is_read_only());
    assert_eq!(e.size, 258);

    // the attribute protects the contents against truncation ...
    assert!(matches!(
        vm.open_file_in_dir(root, "README.TXT", Mode::ReadWriteTruncate),
        Err(Error::ReadOnly)
    ));
    assert!(matches!(
        vm.open_file_in_dir(root, "README.TXT", Mode::ReadWriteCreateOrTruncate),
        Err(Error::ReadOnly)
    ));

    // ... so it must also protect them against deletion
    let r = vm.delete_file_in_dir(root, "README.TXT");
    let still_there = vm.find_directory_entry(root, "README.TXT");
    assert!(
        r.is_err() && still_there.is_ok(),
        "delete_file_in_dir on a read-only file returned {r:?}; lookup afterwards: {still_there:?}"
    );
}
