//! C07 bug 1: the volume-label entry of the root directory is treated as a regular file.
//!
//! The bundled image has a volume-label entry in each root directory
//! ("P-FAT16" on volume 0, "P-FAT32" on volume 1; attribute byte 0x08, no
//! cluster, size 0).  A volume label is neither a file nor a directory, so for
//! the file API the name "P-FAT16" is a MISSING name:
//!
//!   * ReadOnly / ReadWriteAppend / ReadWriteTruncate must report `NotFound`
//!     ("a missing name is reported as not found"),
//!   * the create-or variants must "pick the right one", i.e. create a new file,
//!   * ReadWriteCreate must not claim `FileAlreadyExists`,
//!   * delete_file_in_dir must report `NotFound` and leave the label alone.
//!
//! What happens instead (src/fat/volume.rs find_entry_in_block /
//! delete_entry_in_block match on the 11 name bytes only and the callers in
//! src/volume_mgr.rs only look at the DIRECTORY bit): every mode except
//! ReadWriteCreate opens the label entry as a file, a write gives the *label
//! entry* a cluster chain and a size (a corrupt label that chkdsk/fsck flags),
//! and delete_file_in_dir removes the volume label from the medium.
//!
//! Put this file in tests/ next to tests/utils and run
//! `cargo test --offline --test bug1`.

use embedded_sdmmc::{Error, Mode, VolumeIdx, VolumeManager};

mod utils;

type VM = VolumeManager<utils::RamDisk<Vec<u8>>, utils::TestTimeSource, 4, 4, 1>;

fn fresh() -> VM {
    let disk = utils::make_block_device(utils::DISK_SOURCE).unwrap();
    VolumeManager::new_with_limits(disk, utils::make_time_source(), 0xAA00_0000)
}

#[test]
fn volume_label_is_not_a_file() {
    let mut failures: Vec<String> = Vec::new();

    for (vol, label) in [(0usize, "P-FAT16"), (1usize, "P-FAT32")] {
        // 1. modes that need an existing file: the name is missing => NotFound
        for mode in [Mode::ReadOnly, Mode::ReadWriteAppend, Mode::ReadWriteTruncate] {
            let vm = fresh();
            let v = vm.open_raw_volume(VolumeIdx(vol)).unwrap();
            let root = vm.open_root_dir(v).unwrap();
            // sanity: it really is a pure volume-label entry
            let e = vm.find_directory_entry(root, label).unwrap();
            assert!(e.attributes.is_volume() && !e.attributes.is_directory() && !e.attributes.is_lfn());
            match vm.open_file_in_dir(root, label, mode) {
                Err(Error::NotFound) => {}
                other => failures.push(format!(
                    "vol {vol}: open_file_in_dir(root, {label:?}, {mode:?}) = {other:?}, expected Err(NotFound)"
                )),
            }
        }

        // 2. the worst consequence: 'append' to the label, then look at the label entry
        {
            let vm = fresh();
            let v = vm.open_raw_volume(VolumeIdx(vol)).unwrap();
            let root = vm.open_root_dir(v).unwrap();
            if let Ok(f) = vm.open_file_in_dir(root, label, Mode::ReadWriteCreateOrAppend) {
                let _ = vm.write(f, b"hello");
                let _ = vm.close_file(f);
            }
            // whatever the call did, the volume label entry must be what it was
            let e = vm.find_directory_entry(root, label).unwrap();
            if e.attributes.is_volume() && (e.size != 0) {
                failures.push(format!(
                    "vol {vol}: after CreateOrAppend+write the volume-label entry has size {} / attributes {:?}",
                    e.size, e.attributes
                ));
            }
        }

        // 3. delete must not remove the label
        {
            let vm = fresh();
            let v = vm.open_raw_volume(VolumeIdx(vol)).unwrap();
            let root = vm.open_root_dir(v).unwrap();
            let r = vm.delete_file_in_dir(root, label);
            if !matches!(r, Err(Error::NotFound)) {
                failures.push(format!(
                    "vol {vol}: delete_file_in_dir(root, {label:?}) = {r:?}, expected Err(NotFound)"
                ));
            }
            let mut still_there = false;
            vm.iterate_dir(root, |de| {
                if de.attributes.is_volume() && !de.attributes.is_lfn() {
                    still_there = true;
                }
            })
            .unwrap();
            if !still_there {
                failures.push(format!(
                    "vol {vol}: the volume label entry is gone from the root directory after delete_file_in_dir"
                ));
            }
        }
    }

    assert!(
        failures.is_empty(),
        "volume label treated as a regular file:\n  {}",
        failures.join("\n  ")
    );
}
