//! C16 bug 3: a next-free hint that is out of range at mount is written back
//! unchanged (or simply left in place) by flush / close: the record is
//! rewritten, but the hint is still neither 'unknown' nor a cluster of the
//! volume.
//!
//! Clause violated: "On FAT32, after a flush or volume close ... the
//! next-free hint is unknown or a cluster inside the volume" - quantified over
//! information sectors that start with stale / out-of-range values ("A wrong
//! or out-of-range record found at mount ...").
//!
//! The volume has clusters 2..=65601. FSI_Nxt_Free = 65602 (one past the last
//! cluster - what a driver that stores 'last allocated + 1' leaves behind
//! after allocating the last cluster) or any other out-of-range number.
//!
//! (a) open the volume, close the volume: `update_info_sector` rewrites the
//!     sector and stores 65602 again.
//! (b) write one cluster to the last free cluster of the volume and close
//!     everything: `alloc_cluster` correctly ignores the bad hint, finds no
//!     further free cluster and sets `next_free_cluster = None`; for
//!     `update_info_sector`, `None` means 'leave the field alone', so the
//!     sector is rewritten with the new count 0 and the old hint 65602.
//!
//! What should have happened: the hint reads 0xFFFFFFFF (unknown) or a number
//! in 2..=65601 after the close.
//!
//! Root cause: src/fat/info.rs:82-88 (`next_free_cluster()` accepts any number
//! but 0, 1 and 0xFFFFFFFF; `parse_volume`, src/fat/volume.rs:1521, stores it
//! without comparing it with the cluster count) and src/fat/volume.rs:197-199
//! (`update_info_sector` writes `Some(hint)` verbatim and never writes
//! 0xFFFFFFFF for `None`; `alloc_cluster`, src/fat/volume.rs:1180-1198, uses
//! `None` for 'no free cluster left').

use embedded_sdmmc::{
    Block, BlockCount, BlockDevice, BlockIdx, Mode, TimeSource, Timestamp, VolumeIdx,
    VolumeManager,
};
use std::cell::RefCell;
use std::rc::Rc;

// ---------------------------------------------------------------------------
// A RAM disk whose bytes stay visible to the test, and a tiny FAT32 formatter
// ---------------------------------------------------------------------------

#[derive(Clone)]
struct Disk(Rc<RefCell<Vec<u8>>>);

impl BlockDevice for Disk {
    type Error = ();
    fn read(&self, blocks: &mut [Block], start: BlockIdx) -> Result<(), ()> {
        let d = self.0.borrow();
        for (i, b) in blocks.iter_mut().enumerate() {
            let o = (start.0 as usize + i) * 512;
            if o + 512 > d.len() {
                return Err(());
            }
            b.contents.copy_from_slice(&d[o..o + 512]);
        }
        Ok(())
    }
    fn write(&self, blocks: &[Block], start: BlockIdx) -> Result<(), ()> {
        let mut d = self.0.borrow_mut();
        for (i, b) in blocks.iter().enumerate() {
            let o = (start.0 as usize + i) * 512;
            if o + 512 > d.len() {
                return Err(());
            }
            d[o..o + 512].copy_from_slice(&b.contents);
        }
        Ok(())
    }
    fn num_blocks(&self) -> Result<BlockCount, ()> {
        Ok(BlockCount((self.0.borrow().len() / 512) as u32))
    }
}

struct Clock;
impl TimeSource for Clock {
    fn get_timestamp(&self) -> Timestamp {
        Timestamp {
            year_since_1970: 40,
            zero_indexed_month: 1,
            zero_indexed_day: 1,
            hours: 1,
            minutes: 1,
            seconds: 2,
        }
    }
}

/// First block of the partition
const LBA: usize = 8;
/// Reserved blocks in front of the first FAT
const RESERVED: usize = 32;
/// Data clusters (one block each); >= 65525 so that the volume is FAT32
const CLUSTERS: u32 = 65600;
/// Blocks per FAT copy
const FAT_BLOCKS: usize = ((CLUSTERS as usize + 2) * 4 + 511) / 512;
/// Number of FAT copies
const NFATS: usize = 2;

fn w16(d: &mut [u8], o: usize, v: u16) {
    d[o..o + 2].copy_from_slice(&v.to_le_bytes());
}
fn w32(d: &mut [u8], o: usize, v: u32) {
    d[o..o + 4].copy_from_slice(&v.to_le_bytes());
}
fn r32(d: &[u8], o: usize) -> u32 {
    u32::from_le_bytes([d[o], d[o + 1], d[o + 2], d[o + 3]])
}

struct Img {
    disk: Disk,
}

impl Img {
    /// An MBR disk with one freshly formatted FAT32 partition: 2 FATs, one
    /// block per cluster, empty root directory in cluster 2. The FSInfo
    /// sector is given `free_count` / `next_free`; clusters
    /// `used_from..used_to` are marked as used (end-of-chain) in both FATs.
    fn new(free_count: u32, next_free: u32, used_from: u32, used_to: u32) -> Img {
        let vol_blocks = RESERVED + NFATS * FAT_BLOCKS + CLUSTERS as usize;
        let mut d = vec![0u8; (LBA + vol_blocks) * 512];
        // MBR
        d[446 + 4] = 0x0C;
        w32(&mut d, 446 + 8, LBA as u32);
        w32(&mut d, 446 + 12, vol_blocks as u32);
        w16(&mut d, 510, 0xAA55);
        // BPB
        let b = LBA * 512;
        d[b..b + 3].copy_from_slice(&[0xEB, 0x58, 0x90]);
        d[b + 3..b + 11].copy_from_slice(b"MSWIN4.1");
        w16(&mut d, b + 11, 512); // bytes per block
        d[b + 13] = 1; // blocks per cluster
        w16(&mut d, b + 14, RESERVED as u16);
        d[b + 16] = NFATS as u8;
        d[b + 21] = 0xF8;
        w32(&mut d, b + 32, vol_blocks as u32);
        w32(&mut d, b + 36, FAT_BLOCKS as u32);
        w32(&mut d, b + 44, 2); // root directory cluster
        w16(&mut d, b + 48, 1); // FSInfo sector
        w16(&mut d, b + 50, 6); // backup boot sector
        d[b + 66] = 0x29;
        d[b + 71..b + 82].copy_from_slice(b"NO NAME    ");
        d[b + 82..b + 90].copy_from_slice(b"FAT32   ");
        w16(&mut d, b + 510, 0xAA55);
        // FSInfo
        let i = (LBA + 1) * 512;
        w32(&mut d, i, 0x4161_5252);
        w32(&mut d, i + 484, 0x6141_7272);
        w32(&mut d, i + 488, free_count);
        w32(&mut d, i + 492, next_free);
        w32(&mut d, i + 508, 0xAA55_0000);
        // FATs
        for f in 0..NFATS {
            let fo = (LBA + RESERVED + f * FAT_BLOCKS) * 512;
            w32(&mut d, fo, 0x0FFF_FFF8);
            w32(&mut d, fo + 4, 0x0FFF_FFFF);
            w32(&mut d, fo + 8, 0x0FFF_FFFF); // root directory
            for c in used_from..used_to {
                w32(&mut d, fo + 4 * c as usize, 0x0FFF_FFFF);
            }
        }
        Img {
            disk: Disk(Rc::new(RefCell::new(d))),
        }
    }
    fn fat(&self, n: usize) -> Vec<u8> {
        let d = self.disk.0.borrow();
        let fo = (LBA + RESERVED + n * FAT_BLOCKS) * 512;
        d[fo..fo + FAT_BLOCKS * 512].to_vec()
    }
    /// Number of free entries in the first FAT (an actual scan)
    fn free_entries(&self) -> u32 {
        let f = self.fat(0);
        (2..CLUSTERS + 2)
            .filter(|c| r32(&f, *c as usize * 4) & 0x0FFF_FFFF == 0)
            .count() as u32
    }
    /// (FSI_Free_Count, FSI_Nxt_Free) as stored on the medium
    fn info(&self) -> (u32, u32) {
        let d = self.disk.0.borrow();
        let i = (LBA + 1) * 512;
        (r32(&d, i + 488), r32(&d, i + 492))
    }
    fn fats_equal(&self) -> bool {
        self.fat(0) == self.fat(1)
    }
}

type Vm = VolumeManager<Disk, Clock, 4, 4, 1>;

fn vm(img: &Img) -> Vm {
    VolumeManager::new_with_limits(img.disk.clone(), Clock, 100)
}

fn hint_is_unknown_or_inside(h: u32) -> bool {
    h == 0xFFFF_FFFF || (2..CLUSTERS + 2).contains(&h)
}

#[test]
fn c16_out_of_range_hint_survives_an_idle_volume_close() {
    // (0 and 1 are read as 'unknown' by the library, but stay on the medium as they are)
    for hint in [CLUSTERS + 2, 0x0FFF_FFF0, 0xFFFF_FFFE, 0, 1] {
        let img = Img::new(CLUSTERS - 1, hint, 3, 3);
        let m = vm(&img);
        let v = m.open_raw_volume(VolumeIdx(0)).unwrap();
        m.close_volume(v).unwrap();
        let (count, h) = img.info();
        assert_eq!(count, img.free_entries());
        assert!(
            hint_is_unknown_or_inside(h),
            "after close_volume: next-free hint {h:#x} (at mount: {hint:#x}) is neither unknown nor inside 2..={}",
            CLUSTERS + 1
        );
    }
}

#[test]
fn c16_out_of_range_hint_survives_taking_the_last_free_cluster() {
    // every cluster but the last one is in use; the count (1) is correct
    let hint = CLUSTERS + 2;
    let img = Img::new(1, hint, 3, CLUSTERS + 1);
    assert_eq!(img.free_entries(), 1);
    let m = vm(&img);
    let v = m.open_raw_volume(VolumeIdx(0)).unwrap();
    let r = m.open_root_dir(v).unwrap();
    let f = m
        .open_file_in_dir(r, "A.BIN", Mode::ReadWriteCreate)
        .unwrap();
    m.write(f, &[7u8; 512]).unwrap();
    m.close_file(f).unwrap();
    m.close_dir(r).unwrap();
    m.close_volume(v).unwrap();
    assert!(img.fats_equal());
    let (count, h) = img.info();
    // the record was rewritten: the count is right ...
    assert_eq!(img.free_entries(), 0);
    assert_eq!(count, 0);
    // ... but the hint is not
    assert!(
        hint_is_unknown_or_inside(h),
        "after close_file + close_volume: next-free hint {h:#x} is neither unknown nor inside 2..={}",
        CLUSTERS + 1
    );
}
