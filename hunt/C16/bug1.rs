//! C16 bug 1: flush_file / close_file write the FAT32 free-space record only
//! when the *file* is dirty, although the FAT may have been changed by calls
//! that do not mark any file dirty (truncating open, directory growth on
//! create, delete, mkdir).
//!
//! Clause violated: "On FAT32, after a flush or volume close the stored
//! free-cluster count has changed by exactly the change in the number of free
//! FAT entries since mount (so a count that was correct stays correct ...)".
//!
//! What should have happened: after `flush_file` / `close_file` returned Ok,
//! FSI_Free_Count on the medium equals the number of free FAT entries (it was
//! correct at mount). What happens: opening a 5-cluster file with
//! `Mode::ReadWriteTruncate` frees 4 clusters in both FATs and rewrites the
//! directory entry, but the handle is not `dirty`, so the flush and the close
//! skip `update_info_sector`: the record is left 4 clusters short until (if
//! ever) the volume is closed. The same happens when creating a file makes the
//! directory grow by a cluster.
//!
//! Root cause: src/volume_mgr.rs:976 (`if data.open_files[file_id].dirty`)
//! guards the call of `fat.update_info_sector` at src/volume_mgr.rs:981.

use embedded_sdmmc::{
    Block, BlockCount, BlockDevice, BlockIdx, Mode, TimeSource, Timestamp, VolumeIdx,
    VolumeManager,
};
use std::cell::RefCell;
use std::rc::Rc;

// ---------------------------------------------------------------------------
// A RAM disk whose bytes stay visible to the test, and a tiny FAT32 formatter
// ---------------------------------------------------------------------------

#[derive(Clone)]
struct Disk(Rc<RefCell<Vec<u8>>>);

impl BlockDevice for Disk {
    type Error = ();
    fn read(&self, blocks: &mut [Block], start: BlockIdx) -> Result<(), ()> {
        let d = self.0.borrow();
        for (i, b) in blocks.iter_mut().enumerate() {
            let o = (start.0 as usize + i) * 512;
            if o + 512 > d.len() {
                return Err(());
            }
            b.contents.copy_from_slice(&d[o..o + 512]);
        }
        Ok(())
    }
    fn write(&self, blocks: &[Block], start: BlockIdx) -> Result<(), ()> {
        let mut d = self.0.borrow_mut();
        for (i, b) in blocks.iter().enumerate() {
            let o = (start.0 as usize + i) * 512;
            if o + 512 > d.len() {
                return Err(());
            }
            d[o..o + 512].copy_from_slice(&b.contents);
        }
        Ok(())
    }
    fn num_blocks(&self) -> Result<BlockCount, ()> {
        Ok(BlockCount((self.0.borrow().len() / 512) as u32))
    }
}

struct Clock;
impl TimeSource for Clock {
    fn get_timestamp(&self) -> Timestamp {
        Timestamp {
            year_since_1970: 40,
            zero_indexed_month: 1,
            zero_indexed_day: 1,
            hours: 1,
            minutes: 1,
            seconds: 2,
        }
    }
}

/// First block of the partition
const LBA: usize = 8;
/// Reserved blocks in front of the first FAT
const RESERVED: usize = 32;
/// Data clusters (one block each); >= 65525 so that the volume is FAT32
const CLUSTERS: u32 = 65600;
/// Blocks per FAT copy
const FAT_BLOCKS: usize = ((CLUSTERS as usize + 2) * 4 + 511) / 512;
/// Number of FAT copies
const NFATS: usize = 2;

fn w16(d: &mut [u8], o: usize, v: u16) {
    d[o..o + 2].copy_from_slice(&v.to_le_bytes());
}
fn w32(d: &mut [u8], o: usize, v: u32) {
    d[o..o + 4].copy_from_slice(&v.to_le_bytes());
}
fn r32(d: &[u8], o: usize) -> u32 {
    u32::from_le_bytes([d[o], d[o + 1], d[o + 2], d[o + 3]])
}

struct Img {
    disk: Disk,
}

impl Img {
    /// An MBR disk with one freshly formatted FAT32 partition: 2 FATs, one
    /// block per cluster, empty root directory in cluster 2. The FSInfo
    /// sector is given `free_count` / `next_free`; clusters
    /// `used_from..used_to` are marked as used (end-of-chain) in both FATs.
    fn new(free_count: u32, next_free: u32, used_from: u32, used_to: u32) -> Img {
        let vol_blocks = RESERVED + NFATS * FAT_BLOCKS + CLUSTERS as usize;
        let mut d = vec![0u8; (LBA + vol_blocks) * 512];
        // MBR
        d[446 + 4] = 0x0C;
        w32(&mut d, 446 + 8, LBA as u32);
        w32(&mut d, 446 + 12, vol_blocks as u32);
        w16(&mut d, 510, 0xAA55);
        // BPB
        let b = LBA * 512;
        d[b..b + 3].copy_from_slice(&[0xEB, 0x58, 0x90]);
        d[b + 3..b + 11].copy_from_slice(b"MSWIN4.1");
        w16(&mut d, b + 11, 512); // bytes per block
        d[b + 13] = 1; // blocks per cluster
        w16(&mut d, b + 14, RESERVED as u16);
        d[b + 16] = NFATS as u8;
        d[b + 21] = 0xF8;
        w32(&mut d, b + 32, vol_blocks as u32);
        w32(&mut d, b + 36, FAT_BLOCKS as u32);
        w32(&mut d, b + 44, 2); // root directory cluster
        w16(&mut d, b + 48, 1); // FSInfo sector
        w16(&mut d, b + 50, 6); // backup boot sector
        d[b + 66] = 0x29;
        d[b + 71..b + 82].copy_from_slice(b"NO NAME    ");
        d[b + 82..b + 90].copy_from_slice(b"FAT32   ");
        w16(&mut d, b + 510, 0xAA55);
        // FSInfo
        let i = (LBA + 1) * 512;
        w32(&mut d, i, 0x4161_5252);
        w32(&mut d, i + 484, 0x6141_7272);
        w32(&mut d, i + 488, free_count);
        w32(&mut d, i + 492, next_free);
        w32(&mut d, i + 508, 0xAA55_0000);
        // FATs
        for f in 0..NFATS {
            let fo = (LBA + RESERVED + f * FAT_BLOCKS) * 512;
            w32(&mut d, fo, 0x0FFF_FFF8);
            w32(&mut d, fo + 4, 0x0FFF_FFFF);
            w32(&mut d, fo + 8, 0x0FFF_FFFF); // root directory
            for c in used_from..used_to {
                w32(&mut d, fo + 4 * c as usize, 0x0FFF_FFFF);
            }
        }
        Img {
            disk: Disk(Rc::new(RefCell::new(d))),
        }
    }
    fn fat(&self, n: usize) -> Vec<u8> {
        let d = self.disk.0.borrow();
        let fo = (LBA + RESERVED + n * FAT_BLOCKS) * 512;
        d[fo..fo + FAT_BLOCKS * 512].to_vec()
    }
    /// Number of free entries in the first FAT (an actual scan)
    fn free_entries(&self) -> u32 {
        let f = self.fat(0);
        (2..CLUSTERS + 2)
            .filter(|c| r32(&f, *c as usize * 4) & 0x0FFF_FFFF == 0)
            .count() as u32
    }
    /// (FSI_Free_Count, FSI_Nxt_Free) as stored on the medium
    fn info(&self) -> (u32, u32) {
        let d = self.disk.0.borrow();
        let i = (LBA + 1) * 512;
        (r32(&d, i + 488), r32(&d, i + 492))
    }
    fn fats_equal(&self) -> bool {
        self.fat(0) == self.fat(1)
    }
}

type Vm = VolumeManager<Disk, Clock, 4, 4, 1>;

fn vm(img: &Img) -> Vm {
    VolumeManager::new_with_limits(img.disk.clone(), Clock, 100)
}

#[test]
fn c16_truncating_open_then_flush_and_close_leave_the_count_stale() {
    // correct record at mount: everything but the root directory is free
    let img = Img::new(CLUSTERS - 1, 3, 3, 3);
    assert_eq!(img.info().0, img.free_entries());

    let m = vm(&img);
    let v = m.open_raw_volume(VolumeIdx(0)).unwrap();
    let r = m.open_root_dir(v).unwrap();

    // a file of five clusters
    let f = m
        .open_file_in_dir(r, "A.BIN", Mode::ReadWriteCreate)
        .unwrap();
    m.write(f, &[7u8; 5 * 512]).unwrap();
    m.close_file(f).unwrap();
    assert!(img.fats_equal());
    assert_eq!(img.info().0, img.free_entries(), "record correct after the write");
    assert_eq!(img.free_entries(), CLUSTERS - 1 - 5);

    // truncating open: four clusters go back to the free pool
    let f = m
        .open_file_in_dir(r, "A.BIN", Mode::ReadWriteTruncate)
        .unwrap();
    assert!(img.fats_equal());
    assert_eq!(img.free_entries(), CLUSTERS - 1 - 1);

    m.flush_file(f).unwrap();
    let after_flush = (img.info().0, img.free_entries());
    m.close_file(f).unwrap();
    let after_close = (img.info().0, img.free_entries());

    assert_eq!(
        after_flush.0, after_flush.1,
        "after flush_file: stored free count vs. free FAT entries"
    );
    assert_eq!(
        after_close.0, after_close.1,
        "after close_file: stored free count vs. free FAT entries"
    );
}

#[test]
fn c16_directory_growth_on_create_then_close_leaves_the_count_stale() {
    let img = Img::new(CLUSTERS - 1, 3, 3, 3);
    let m = vm(&img);
    let v = m.open_raw_volume(VolumeIdx(0)).unwrap();
    let r = m.open_root_dir(v).unwrap();
    // the root directory's only cluster holds 16 entries; the 17th file makes
    // it grow by one cluster
    for i in 0..17 {
        let name = format!("E{i}.TXT");
        let f = m
            .open_file_in_dir(r, name.as_str(), Mode::ReadWriteCreate)
            .unwrap();
        m.close_file(f).unwrap();
        assert!(img.fats_equal());
        assert_eq!(
            img.info().0,
            img.free_entries(),
            "after creating and closing {name}: stored free count vs. free FAT entries"
        );
    }
}
