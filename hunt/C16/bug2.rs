//! C16 bug 2: once more clusters have been allocated than a stale-low
//! FSI_Free_Count said were free, the library silently stops maintaining the
//! count for the rest of the mount (`free_clusters_count` becomes `None`,
//! and `update_info_sector` then no longer touches the field), so every later
//! allocation *and every later release* is lost from the record.
//!
//! Clause violated: "On FAT32, after a flush or volume close the stored
//! free-cluster count has changed by exactly the change in the number of free
//! FAT entries since mount" - quantified over "information sectors starting
//! with correct, unknown (0xFFFFFFFF) and stale values".
//!
//! History: the record says 2 free clusters at mount (stale: 65589 entries are
//! free). Write a 5-cluster file A and close it, delete a 10-cluster file B
//! that was already there, close the volume. The number of free FAT entries
//! has changed by +5 since mount, so the stored count must read 2 + 5 = 7.
//! The library leaves 2 there (and, depending on where flushes happened in
//! between, any other value it wrote last: with a flush after the first
//! cluster the same history ends with 1, see the second test).
//!
//! Root cause: src/fat/volume.rs:1202-1204 (`free_clusters_count.and_then(|n|
//! n.checked_sub(1))` turns the count into `None` for good) together with
//! src/fat/volume.rs:194 (`if let Some(count) = self.free_clusters_count` -
//! a `None` count is never written, not even as 'unknown'), and
//! src/fat/volume.rs:1245-1247 / 1273-1275 (`and_then(checked_add)` cannot
//! revive it).

use embedded_sdmmc::{
    Block, BlockCount, BlockDevice, BlockIdx, Mode, TimeSource, Timestamp, VolumeIdx,
    VolumeManager,
};
use std::cell::RefCell;
use std::rc::Rc;

// ---------------------------------------------------------------------------
// A RAM disk whose bytes stay visible to the test, and a tiny FAT32 formatter
// ---------------------------------------------------------------------------

#[derive(Clone)]
struct Disk(Rc<RefCell<Vec<u8>>>);

impl BlockDevice for Disk {
    type Error = ();
    fn read(&self, blocks: &mut [Block], start: BlockIdx) -> Result<(), ()> {
        let d = self.0.borrow();
        for (i, b) in blocks.iter_mut().enumerate() {
            let o = (start.0 as usize + i) * 512;
            if o + 512 > d.len() {
                return Err(());
            }
            b.contents.copy_from_slice(&d[o..o + 512]);
        }
        Ok(())
    }
    fn write(&self, blocks: &[Block], start: BlockIdx) -> Result<(), ()> {
        let mut d = self.0.borrow_mut();
        for (i, b) in blocks.iter().enumerate() {
            let o = (start.0 as usize + i) * 512;
            if o + 512 > d.len() {
                return Err(());
            }
            d[o..o + 512].copy_from_slice(&b.contents);
        }
        Ok(())
    }
    fn num_blocks(&self) -> Result<BlockCount, ()> {
        Ok(BlockCount((self.0.borrow().len() / 512) as u32))
    }
}

struct Clock;
impl TimeSource for Clock {
    fn get_timestamp(&self) -> Timestamp {
        Timestamp {
            year_since_1970: 40,
            zero_indexed_month: 1,
            zero_indexed_day: 1,
            hours: 1,
            minutes: 1,
            seconds: 2,
        }
    }
}

/// First block of the partition
const LBA: usize = 8;
/// Reserved blocks in front of the first FAT
const RESERVED: usize = 32;
/// Data clusters (one block each); >= 65525 so that the volume is FAT32
const CLUSTERS: u32 = 65600;
/// Blocks per FAT copy
const FAT_BLOCKS: usize = ((CLUSTERS as usize + 2) * 4 + 511) / 512;
/// Number of FAT copies
const NFATS: usize = 2;

fn w16(d: &mut [u8], o: usize, v: u16) {
    d[o..o + 2].copy_from_slice(&v.to_le_bytes());
}
fn w32(d: &mut [u8], o: usize, v: u32) {
    d[o..o + 4].copy_from_slice(&v.to_le_bytes());
}
fn r32(d: &[u8], o: usize) -> u32 {
    u32::from_le_bytes([d[o], d[o + 1], d[o + 2], d[o + 3]])
}

struct Img {
    disk: Disk,
}

impl Img {
    /// An MBR disk with one freshly formatted FAT32 partition: 2 FATs, one
    /// block per cluster, empty root directory in cluster 2. The FSInfo
    /// sector is given `free_count` / `next_free`; clusters
    /// `used_from..used_to` are marked as used (end-of-chain) in both FATs.
    fn new(free_count: u32, next_free: u32, used_from: u32, used_to: u32) -> Img {
        let vol_blocks = RESERVED + NFATS * FAT_BLOCKS + CLUSTERS as usize;
        let mut d = vec![0u8; (LBA + vol_blocks) * 512];
        // MBR
        d[446 + 4] = 0x0C;
        w32(&mut d, 446 + 8, LBA as u32);
        w32(&mut d, 446 + 12, vol_blocks as u32);
        w16(&mut d, 510, 0xAA55);
        // BPB
        let b = LBA * 512;
        d[b..b + 3].copy_from_slice(&[0xEB, 0x58, 0x90]);
        d[b + 3..b + 11].copy_from_slice(b"MSWIN4.1");
        w16(&mut d, b + 11, 512); // bytes per block
        d[b + 13] = 1; // blocks per cluster
        w16(&mut d, b + 14, RESERVED as u16);
        d[b + 16] = NFATS as u8;
        d[b + 21] = 0xF8;
        w32(&mut d, b + 32, vol_blocks as u32);
        w32(&mut d, b + 36, FAT_BLOCKS as u32);
        w32(&mut d, b + 44, 2); // root directory cluster
        w16(&mut d, b + 48, 1); // FSInfo sector
        w16(&mut d, b + 50, 6); // backup boot sector
        d[b + 66] = 0x29;
        d[b + 71..b + 82].copy_from_slice(b"NO NAME    ");
        d[b + 82..b + 90].copy_from_slice(b"FAT32   ");
        w16(&mut d, b + 510, 0xAA55);
        // FSInfo
        let i = (LBA + 1) * 512;
        w32(&mut d, i, 0x4161_5252);
        w32(&mut d, i + 484, 0x6141_7272);
        w32(&mut d, i + 488, free_count);
        w32(&mut d, i + 492, next_free);
        w32(&mut d, i + 508, 0xAA55_0000);
        // FATs
        for f in 0..NFATS {
            let fo = (LBA + RESERVED + f * FAT_BLOCKS) * 512;
            w32(&mut d, fo, 0x0FFF_FFF8);
            w32(&mut d, fo + 4, 0x0FFF_FFFF);
            w32(&mut d, fo + 8, 0x0FFF_FFFF); // root directory
            for c in used_from..used_to {
                w32(&mut d, fo + 4 * c as usize, 0x0FFF_FFFF);
            }
        }
        Img {
            disk: Disk(Rc::new(RefCell::new(d))),
        }
    }
    fn fat(&self, n: usize) -> Vec<u8> {
        let d = self.disk.0.borrow();
        let fo = (LBA + RESERVED + n * FAT_BLOCKS) * 512;
        d[fo..fo + FAT_BLOCKS * 512].to_vec()
    }
    /// Number of free entries in the first FAT (an actual scan)
    fn free_entries(&self) -> u32 {
        let f = self.fat(0);
        (2..CLUSTERS + 2)
            .filter(|c| r32(&f, *c as usize * 4) & 0x0FFF_FFFF == 0)
            .count() as u32
    }
    /// (FSI_Free_Count, FSI_Nxt_Free) as stored on the medium
    fn info(&self) -> (u32, u32) {
        let d = self.disk.0.borrow();
        let i = (LBA + 1) * 512;
        (r32(&d, i + 488), r32(&d, i + 492))
    }
    fn fats_equal(&self) -> bool {
        self.fat(0) == self.fat(1)
    }
}

type Vm = VolumeManager<Disk, Clock, 4, 4, 1>;

fn vm(img: &Img) -> Vm {
    VolumeManager::new_with_limits(img.disk.clone(), Clock, 100)
}

impl Img {
    fn set_info(&self, count: u32, next: u32) {
        let mut d = self.disk.0.borrow_mut();
        let i = (LBA + 1) * 512;
        w32(&mut d, i + 488, count);
        w32(&mut d, i + 492, next);
    }
}

/// A volume holding the 10-cluster file B.BIN, with a correct record.
fn volume_with_b() -> Img {
    let img = Img::new(CLUSTERS - 1, 3, 3, 3);
    let m = vm(&img);
    let v = m.open_raw_volume(VolumeIdx(0)).unwrap();
    let r = m.open_root_dir(v).unwrap();
    let f = m
        .open_file_in_dir(r, "B.BIN", Mode::ReadWriteCreate)
        .unwrap();
    m.write(f, &[9u8; 10 * 512]).unwrap();
    m.close_file(f).unwrap();
    m.close_dir(r).unwrap();
    m.close_volume(v).unwrap();
    assert_eq!(img.info().0, img.free_entries());
    img
}

#[test]
fn c16_stale_low_count_stops_being_maintained() {
    let img = volume_with_b();
    // somebody else used the card and left a stale (too low) count behind
    let stored_at_mount = 2u32;
    img.set_info(stored_at_mount, 3);
    let free_at_mount = img.free_entries();

    let m = vm(&img);
    let v = m.open_raw_volume(VolumeIdx(0)).unwrap();
    let r = m.open_root_dir(v).unwrap();
    let f = m
        .open_file_in_dir(r, "A.BIN", Mode::ReadWriteCreate)
        .unwrap();
    m.write(f, &[7u8; 5 * 512]).unwrap(); // no panic, no failure: good
    m.close_file(f).unwrap();
    m.delete_file_in_dir(r, "B.BIN").unwrap();
    m.close_dir(r).unwrap();
    m.close_volume(v).unwrap();
    assert!(img.fats_equal());

    let change = img.free_entries() as i64 - free_at_mount as i64;
    assert_eq!(change, 5);
    assert_eq!(
        img.info().0 as i64,
        stored_at_mount as i64 + change,
        "after close_volume: the stored count must have changed by the change in free FAT entries"
    );
}

#[test]
fn c16_stale_low_count_result_depends_on_flush_points() {
    let img = volume_with_b();
    let stored_at_mount = 2u32;
    img.set_info(stored_at_mount, 3);
    let free_at_mount = img.free_entries();

    let m = vm(&img);
    let v = m.open_raw_volume(VolumeIdx(0)).unwrap();
    let r = m.open_root_dir(v).unwrap();
    let f = m
        .open_file_in_dir(r, "A.BIN", Mode::ReadWriteCreate)
        .unwrap();
    m.write(f, &[7u8; 512]).unwrap();
    m.flush_file(f).unwrap();
    // one cluster gone, one flush: 2 - 1 = 1, fine so far
    assert_eq!(img.info().0, 1);
    m.write(f, &[7u8; 4 * 512]).unwrap();
    m.close_file(f).unwrap();
    m.delete_file_in_dir(r, "B.BIN").unwrap();
    m.close_dir(r).unwrap();
    m.close_volume(v).unwrap();

    let change = img.free_entries() as i64 - free_at_mount as i64;
    assert_eq!(change, 5);
    assert_eq!(
        img.info().0 as i64,
        stored_at_mount as i64 + change,
        "after close_volume: the stored count must have changed by the change in free FAT entries"
    );
}
