//! C17 bug 3: a 0x0000 terminator in a fragment that is not the last one in
//! name order does not end the name: the units of the following fragments are
//! glued on behind it.
//!
//! Clause violated: "the resulting string is always valid UTF-8: the lossy
//! decoding of the fragments joined in name order when it fits" (the name is
//! the joined units up to the terminator) and "a long name is reported only
//! for a complete, correctly ordered fragment run [...]; otherwise the entry is
//! reported with no long name". The fragments joined in name order are
//!   'A' 'B' 'C' 'D' 'E' 0000 FFFF*7 | 'X' 'Y' 'Z' 0000 FFFF*9
//! whose decoding up to the terminator is "ABCDE" (what Linux vfat shows). A
//! reader may also call such a run malformed and report no long name. The
//! library reports "ABCDEXYZ" - a name that is neither; it is not the decoding
//! of the run's units under any reading (the terminator and the padding inside
//! are silently cut out).
//!
//! Root cause: src/filesystem/filename.rs:283-288 - `LfnBuffer::push` cuts
//! every fragment at its own first 0x0000 and prepends the rest to what is
//! already in the buffer, whatever position the fragment has in the name;
//! src/fat/volume.rs:617-629 pushes continuation fragments without looking for
//! a terminator.

use embedded_sdmmc::{
    Block, BlockCount, BlockDevice, BlockIdx, LfnBuffer, TimeSource, Timestamp, VolumeIdx,
    VolumeManager,
};
use std::cell::RefCell;

/// In-memory block device; blocks past the backing vector read as zeros.
struct Disk {
    data: RefCell<Vec<u8>>,
    total: u32,
}
impl BlockDevice for Disk {
    type Error = ();
    fn read(&self, blocks: &mut [Block], start: BlockIdx) -> Result<(), ()> {
        let d = self.data.borrow();
        for (i, b) in blocks.iter_mut().enumerate() {
            let off = (start.0 as usize + i) * 512;
            if off + 512 <= d.len() {
                b.as_mut_slice().copy_from_slice(&d[off..off + 512]);
            } else {
                b.as_mut_slice().fill(0);
            }
        }
        Ok(())
    }
    fn write(&self, blocks: &[Block], start: BlockIdx) -> Result<(), ()> {
        let mut d = self.data.borrow_mut();
        for (i, b) in blocks.iter().enumerate() {
            let off = (start.0 as usize + i) * 512;
            if off + 512 <= d.len() {
                d[off..off + 512].copy_from_slice(b.as_slice());
            }
        }
        Ok(())
    }
    fn num_blocks(&self) -> Result<BlockCount, ()> {
        Ok(BlockCount(self.total))
    }
}
struct Clock;
impl TimeSource for Clock {
    fn get_timestamp(&self) -> Timestamp {
        Timestamp {
            year_since_1970: 33,
            zero_indexed_month: 3,
            zero_indexed_day: 3,
            hours: 13,
            minutes: 30,
            seconds: 5,
        }
    }
}

/// A minimal FAT16 image: MBR in block 0, boot sector in block 1, one FAT in
/// blocks 2..22, the root directory (512 slots) in blocks 22..54, data after.
/// `root_slots` are copied to the start of the root directory; the rest of the
/// directory is zero (end marker).
fn image(root_slots: &[[u8; 32]]) -> Disk {
    let mut v = vec![0u8; 80 * 512];
    // MBR: partition 1, type 0x06 (FAT16), starts at block 1
    v[446 + 4] = 0x06;
    v[446 + 8..446 + 12].copy_from_slice(&1u32.to_le_bytes());
    v[446 + 12..446 + 16].copy_from_slice(&4400u32.to_le_bytes());
    v[510] = 0x55;
    v[511] = 0xAA;
    // boot sector
    let b = 512;
    v[b + 11..b + 13].copy_from_slice(&512u16.to_le_bytes()); // bytes per block
    v[b + 13] = 1; // blocks per cluster
    v[b + 14..b + 16].copy_from_slice(&1u16.to_le_bytes()); // reserved
    v[b + 16] = 1; // FATs
    v[b + 17..b + 19].copy_from_slice(&512u16.to_le_bytes()); // root entries
    v[b + 19..b + 21].copy_from_slice(&4400u16.to_le_bytes()); // total blocks
    v[b + 21] = 0xF8;
    v[b + 22..b + 24].copy_from_slice(&20u16.to_le_bytes()); // FAT size
    v[b + 510] = 0x55;
    v[b + 511] = 0xAA;
    // FAT
    v[2 * 512..2 * 512 + 4].copy_from_slice(&[0xF8, 0xFF, 0xFF, 0xFF]);
    for (i, s) in root_slots.iter().enumerate() {
        let o = 22 * 512 + i * 32;
        v[o..o + 32].copy_from_slice(s);
    }
    Disk {
        data: RefCell::new(v),
        total: 4401,
    }
}

/// A long-name slot holding exactly these 13 code units.
fn lfn_raw(ord: u8, csum: u8, u: [u16; 13]) -> [u8; 32] {
    let mut s = [0u8; 32];
    s[0] = ord;
    s[11] = 0x0F;
    s[13] = csum;
    let pos = [1, 3, 5, 7, 9, 14, 16, 18, 20, 22, 24, 28, 30];
    for (k, p) in pos.iter().enumerate() {
        s[*p..*p + 2].copy_from_slice(&u[k].to_le_bytes());
    }
    s
}
/// A long-name slot holding `units`, then (if there is room) the 0x0000
/// terminator and 0xFFFF padding, as the specification prescribes.
fn lfn(ord: u8, csum: u8, units: &[u16]) -> [u8; 32] {
    assert!(units.len() <= 13);
    let mut u = [0xFFFFu16; 13];
    u[..units.len()].copy_from_slice(units);
    if units.len() < 13 {
        u[units.len()] = 0;
    }
    lfn_raw(ord, csum, u)
}
fn sfn(name: &[u8; 11], attr: u8) -> [u8; 32] {
    let mut s = [0u8; 32];
    s[..11].copy_from_slice(name);
    s[11] = attr;
    s
}
/// The short-name checksum of the FAT specification.
fn csum(name: &[u8; 11]) -> u8 {
    let mut r = 0u8;
    for b in name {
        r = r.rotate_right(1).wrapping_add(*b);
    }
    r
}
fn w(s: &str) -> Vec<u16> {
    s.encode_utf16().collect()
}

/// List the root directory: (short name, long name as reported).
fn list(disk: Disk, bufsize: usize) -> Vec<(String, Option<String>)> {
    let vm: VolumeManager<Disk, Clock, 4, 4, 1> = VolumeManager::new_with_limits(disk, Clock, 100);
    let vol = vm.open_raw_volume(VolumeIdx(0)).expect("open volume");
    let root = vm.open_root_dir(vol).expect("open root");
    let mut storage = vec![0u8; bufsize];
    let mut buf = LfnBuffer::new(&mut storage);
    let mut out = vec![];
    vm.iterate_dir_lfn(root, &mut buf, |de, l| {
        out.push((format!("{}", de.name), l.map(String::from)));
    })
    .expect("iterate");
    out
}

#[test]
fn terminator_in_a_non_last_fragment_ends_the_name() {
    let name = b"HELLO~1 TXT";
    let c = csum(name);
    let slots = vec![
        lfn(0x42, c, &w("XYZ")),   // second (last) fragment in name order
        lfn(0x01, c, &w("ABCDE")), // first fragment: terminator at unit 5
        sfn(name, 0x20),
    ];
    let listing = list(image(&slots), 780);
    assert_eq!(listing.len(), 1);
    let got = listing[0].1.as_deref();
    assert!(
        got == Some("ABCDE") || got.is_none(),
        "expected the name up to the terminator (\"ABCDE\") or no long name, got {:?}",
        got
    );
}

#[test]
fn same_thing_fed_straight_into_the_buffer() {
    let mut first = [0xFFFFu16; 13];
    first[..5].copy_from_slice(&w("ABCDE"));
    first[5] = 0;
    let mut second = [0xFFFFu16; 13];
    second[..3].copy_from_slice(&w("XYZ"));
    second[3] = 0;
    // joined in name order, up to the terminator
    let joined: Vec<u16> = first.iter().chain(second.iter()).cloned().collect();
    let end = joined.iter().position(|&u| u == 0).unwrap();
    let expected = String::from_utf16_lossy(&joined[..end]);
    assert_eq!(expected, "ABCDE");

    let mut storage = [0u8; 780];
    let mut buf = LfnBuffer::new(&mut storage);
    buf.push(&second); // last chunk first, as on disk
    buf.push(&first);
    assert_eq!(buf.as_str(), expected);
}
