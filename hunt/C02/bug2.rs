//! C02 bug 2: the volume-label entry of the root directory is taken for a file.
//!
//! Clauses violated:
//!   "... a completely fresh mount of the raw block device - by this library and
//!    by an independent FAT reader written from the specification - shows that
//!    file under its name with exactly the flushed length and contents ..."
//!   "Every file and directory that the history did not touch is byte-for-byte
//!    and entry-for-entry unchanged."
//!
//! FatVolume::find_entry_in_block (src/fat/volume.rs:895-906, and the twin in
//! delete_entry_in_block :1024-1036) skips long-name slots but not entries with
//! ATTR_VOLUME_ID (0x08). A root directory formatted by Windows / mkfs.fat -n /
//! macOS holds such an entry (the repository's own tests/disk.img.gz has
//! "P-FAT16" and "P-FAT32"). Opening a file whose 8.3 name has the same 11 bytes
//! as the label (label "DATA" <-> file "DATA", label "BACKUP  IMG" <-> file
//! "BACKUP.IMG") with a create-or-append / create-or-truncate mode therefore
//! "finds" the label, opens it as an existing file, and flush/close write the
//! file's cluster, size, times and archive bit INTO THE LABEL ENTRY (attribute
//! becomes 0x28). Any reader that follows the specification treats an entry with
//! ATTR_VOLUME_ID as the label, not as a file: the file that was just written and
//! closed does not exist for it, its cluster is lost, and the label entry - which
//! the history never touched - has changed. (Mode::ReadWriteCreate reports
//! FileAlreadyExists, delete_file_in_dir("DATA") deletes the label.)
//!
//! Expected: no FILE called DATA exists, so the open creates a new entry; an
//! independent reader then lists /DATA (7 bytes, "payload") and the label entry
//! is byte-for-byte what it was.

use embedded_sdmmc::{Mode, VolumeIdx, VolumeManager};
use hunt_common::*;
use std::cell::{Cell, RefCell};
use std::rc::Rc;

type Vm = VolumeManager<Ram, Clock, 8, 4, 1>;

fn geo(fat32: bool) -> Geo {
    if fat32 {
        // 65600 clusters of 1 sector: FAT32
        Geo::new(true, 1, 32, 2, 0, 65600, 64)
    } else {
        // 4200 clusters of 2 sectors: FAT16
        Geo::new(false, 2, 4, 2, 512, 4200, 64)
    }
}

#[test]
fn file_with_the_same_name_as_the_volume_label() {
    for fat32 in [false, true] {
        let g = geo(fat32);
        let mut im = Img::open(mkfs(&g), g);
        let (d0, t0) = fat_dt(ts(2015, 6, 7, 8, 9, 10));
        // what `mkfs.fat -n DATA` puts into the root directory
        let label = sfn_entry(b"DATA       ", 0x08, 0, 0, 0, 0, d0, t0, 0);
        im.dir_append(0, &[label]);
        let c = im.put_data(b"hello");
        im.dir_append(0, &[sfn_entry(b"OLD     TXT", 0x20, c, 5, d0, t0, d0, t0, 0)]);
        let disk = Rc::new(RefCell::new(im.d));
        let clock = Clock(Rc::new(Cell::new(ts(2020, 1, 2, 3, 4, 6))));
        {
            let vm: Vm = VolumeManager::new_with_limits(Ram(disk.clone()), clock, 100);
            let vol = vm.open_volume(VolumeIdx(0)).unwrap();
            let root = vol.open_root_dir().unwrap();
            let f = root
                .open_file_in_dir("DATA", Mode::ReadWriteCreateOrAppend)
                .unwrap();
            f.write(b"payload").unwrap();
            f.close().unwrap();
        }
        let after = disk.borrow().clone();
        let rd = Rd::mount(&after, 0);
        let labels: Vec<Ent> = rd
            .list(0)
            .unwrap()
            .into_iter()
            .filter(|e| e.attr() & 0x08 != 0)
            .collect();
        for l in &labels {
            println!("fat32={} entry with ATTR_VOLUME_ID: {:02x?}", fat32, l.raw);
        }
        let tree = rd.tree().unwrap();
        println!("fat32={} files seen by the independent reader: {:?}", fat32, tree.keys().collect::<Vec<_>>());
        assert!(
            tree.contains_key("/DATA"),
            "fat32={}: the file DATA that was written and closed is not in the root directory",
            fat32
        );
        assert_eq!(tree["/DATA"].1.as_deref(), Some(&b"payload"[..]));
        assert_eq!(labels.len(), 1);
        assert_eq!(labels[0].raw, label, "the volume label entry was modified");
    }
}

/// In-memory block device, a tiny mkfs / image writer, and an independent FAT
/// reader written from the Microsoft FAT specification (no library code).
#[allow(dead_code)]
mod hunt_common {

    use embedded_sdmmc::{Block, BlockCount, BlockDevice, BlockIdx, TimeSource, Timestamp};
    use std::cell::{Cell, RefCell};
    use std::rc::Rc;

    #[derive(Clone)]
    pub struct Ram(pub Rc<RefCell<Vec<u8>>>);

    impl BlockDevice for Ram {
        type Error = ();
        fn read(&self, blocks: &mut [Block], start: BlockIdx) -> Result<(), ()> {
            let d = self.0.borrow();
            for (i, b) in blocks.iter_mut().enumerate() {
                let o = (start.0 as usize + i) * 512;
                if o + 512 > d.len() {
                    return Err(());
                }
                b.as_mut_slice().copy_from_slice(&d[o..o + 512]);
            }
            Ok(())
        }
        fn write(&self, blocks: &[Block], start: BlockIdx) -> Result<(), ()> {
            let mut d = self.0.borrow_mut();
            for (i, b) in blocks.iter().enumerate() {
                let o = (start.0 as usize + i) * 512;
                if o + 512 > d.len() {
                    return Err(());
                }
                d[o..o + 512].copy_from_slice(b.as_slice());
            }
            Ok(())
        }
        fn num_blocks(&self) -> Result<BlockCount, ()> {
            Ok(BlockCount((self.0.borrow().len() / 512) as u32))
        }
    }

    #[derive(Clone)]
    pub struct Clock(pub Rc<Cell<Timestamp>>);
    impl TimeSource for Clock {
        fn get_timestamp(&self) -> Timestamp {
            self.0.get()
        }
    }
    pub fn ts(y: u16, mo: u8, d: u8, h: u8, mi: u8, s: u8) -> Timestamp {
        Timestamp::from_calendar(y, mo, d, h, mi, s).unwrap()
    }
    /// FAT (date,time) words for a timestamp, computed from the specification
    pub fn fat_dt(t: Timestamp) -> (u16, u16) {
        let date = ((t.year_since_1970 as u16 + 1970 - 1980) << 9)
            | ((t.zero_indexed_month as u16 + 1) << 5)
            | (t.zero_indexed_day as u16 + 1);
        let time = ((t.hours as u16) << 11) | ((t.minutes as u16) << 5) | (t.seconds as u16 / 2);
        (date, time)
    }

    #[derive(Clone, Copy, Debug)]
    pub struct Geo {
        pub fat32: bool,
        pub spc: u32,
        pub reserved: u32,
        pub num_fats: u32,
        pub root_entries: u32,
        pub clusters: u32,
        pub part_start: u32,
        pub part_slot: usize,
        // derived
        pub fatsz: u32,
        pub root_secs: u32,
        pub total: u32,
    }

    impl Geo {
        pub fn new(
            fat32: bool,
            spc: u32,
            reserved: u32,
            num_fats: u32,
            root_entries: u32,
            clusters: u32,
            part_start: u32,
        ) -> Geo {
            let esz = if fat32 { 4 } else { 2 };
            let fatsz = ((clusters + 2) * esz + 511) / 512;
            let root_secs = if fat32 { 0 } else { (root_entries * 32 + 511) / 512 };
            let total = reserved + num_fats * fatsz + root_secs + clusters * spc;
            Geo {
                fat32,
                spc,
                reserved,
                num_fats,
                root_entries: if fat32 { 0 } else { root_entries },
                clusters,
                part_start,
                part_slot: 0,
                fatsz,
                root_secs,
                total,
            }
        }
        pub fn fat_off(&self, n: u32) -> usize {
            ((self.part_start + self.reserved + n * self.fatsz) as usize) * 512
        }
        pub fn root_off(&self) -> usize {
            ((self.part_start + self.reserved + self.num_fats * self.fatsz) as usize) * 512
        }
        pub fn data_off(&self) -> usize {
            self.root_off() + self.root_secs as usize * 512
        }
        pub fn clus_off(&self, c: u32) -> usize {
            assert!(c >= 2 && c < self.clusters + 2, "cluster {} out of range", c);
            self.data_off() + ((c - 2) * self.spc) as usize * 512
        }
        pub fn bpc(&self) -> usize {
            self.spc as usize * 512
        }
    }

    fn w16(b: &mut [u8], o: usize, v: u16) {
        b[o..o + 2].copy_from_slice(&v.to_le_bytes());
    }
    fn w32(b: &mut [u8], o: usize, v: u32) {
        b[o..o + 4].copy_from_slice(&v.to_le_bytes());
    }
    pub fn r16(b: &[u8], o: usize) -> u16 {
        u16::from_le_bytes([b[o], b[o + 1]])
    }
    pub fn r32(b: &[u8], o: usize) -> u32 {
        u32::from_le_bytes([b[o], b[o + 1], b[o + 2], b[o + 3]])
    }

    /// Format: MBR + one partition
    pub fn mkfs(g: &Geo) -> Vec<u8> {
        let mut img = vec![0u8; ((g.part_start + g.total) as usize + 8) * 512];
        // MBR
        let p = 446 + 16 * g.part_slot;
        img[p] = 0x00;
        img[p + 4] = if g.fat32 { 0x0C } else { 0x06 };
        w32(&mut img, p + 8, g.part_start);
        w32(&mut img, p + 12, g.total);
        w16(&mut img, 510, 0xAA55);
        // BPB
        let b = g.part_start as usize * 512;
        img[b..b + 3].copy_from_slice(&[0xEB, 0x58, 0x90]);
        img[b + 3..b + 11].copy_from_slice(b"HUNTC02 ");
        w16(&mut img, b + 11, 512);
        img[b + 13] = g.spc as u8;
        w16(&mut img, b + 14, g.reserved as u16);
        img[b + 16] = g.num_fats as u8;
        w16(&mut img, b + 17, g.root_entries as u16);
        if g.total < 0x10000 && !g.fat32 {
            w16(&mut img, b + 19, g.total as u16);
        } else {
            w32(&mut img, b + 32, g.total);
        }
        img[b + 21] = 0xF8;
        w32(&mut img, b + 28, g.part_start);
        if g.fat32 {
            w32(&mut img, b + 36, g.fatsz);
            w32(&mut img, b + 44, 2); // root cluster
            w16(&mut img, b + 48, 1); // fsinfo
            w16(&mut img, b + 50, 6);
            img[b + 66] = 0x29;
            img[b + 71..b + 82].copy_from_slice(b"NO NAME    ");
            img[b + 82..b + 90].copy_from_slice(b"FAT32   ");
            // fsinfo
            let f = b + 512;
            w32(&mut img, f, 0x4161_5252);
            w32(&mut img, f + 484, 0x6141_7272);
            w32(&mut img, f + 488, g.clusters - 1);
            w32(&mut img, f + 492, 3);
            w32(&mut img, f + 508, 0xAA55_0000);
        } else {
            w16(&mut img, b + 22, g.fatsz as u16);
            img[b + 38] = 0x29;
            img[b + 43..b + 54].copy_from_slice(b"NO NAME    ");
            img[b + 54..b + 62].copy_from_slice(b"FAT16   ");
        }
        w16(&mut img, b + 510, 0xAA55);
        let mut im = Img { d: img, g: *g, next: 2, stride: 1 };
        if g.fat32 {
            im.fat_set(0, 0x0FFF_FFF8);
            im.fat_set(1, 0x0FFF_FFFF);
            im.fat_set(2, 0x0FFF_FFFF);
            im.next = 3;
        } else {
            im.fat_set(0, 0xFFF8);
            im.fat_set(1, 0xFFFF);
        }
        im.d
    }

    /// Independent image writer, used to pre-populate trees
    pub struct Img {
        pub d: Vec<u8>,
        pub g: Geo,
        pub next: u32,
        pub stride: u32,
    }

    impl Img {
        pub fn open(d: Vec<u8>, g: Geo) -> Img {
            Img { d, g, next: if g.fat32 { 3 } else { 2 }, stride: 1 }
        }
        pub fn fat_get(&self, c: u32) -> u32 {
            let o = self.g.fat_off(0);
            if self.g.fat32 {
                r32(&self.d, o + c as usize * 4) & 0x0FFF_FFFF
            } else {
                r16(&self.d, o + c as usize * 2) as u32
            }
        }
        pub fn fat_set(&mut self, c: u32, v: u32) {
            for n in 0..self.g.num_fats {
                let o = self.g.fat_off(n);
                if self.g.fat32 {
                    w32(&mut self.d, o + c as usize * 4, v & 0x0FFF_FFFF);
                } else {
                    w16(&mut self.d, o + c as usize * 2, v as u16);
                }
            }
        }
        pub fn eoc(&self) -> u32 {
            if self.g.fat32 {
                0x0FFF_FFFF
            } else {
                0xFFFF
            }
        }
        pub fn alloc(&mut self) -> u32 {
            let mut c = self.next;
            loop {
                assert!(c < self.g.clusters + 2, "image full");
                if self.fat_get(c) == 0 {
                    break;
                }
                c += 1;
            }
            self.next = c + self.stride;
            let e = self.eoc();
            self.fat_set(c, e);
            let o = self.g.clus_off(c);
            let n = self.g.bpc();
            self.d[o..o + n].fill(0);
            c
        }
        /// allocate a chain holding `data`; 0 if empty
        pub fn put_data(&mut self, data: &[u8]) -> u32 {
            let mut first = 0;
            let mut prev = 0;
            for chunk in data.chunks(self.g.bpc()) {
                let c = self.alloc();
                let o = self.g.clus_off(c);
                self.d[o..o + chunk.len()].copy_from_slice(chunk);
                if prev != 0 {
                    self.fat_set(prev, c);
                } else {
                    first = c;
                }
                prev = c;
            }
            first
        }
        /// byte offsets of all 32-byte slots of a directory (dir=0: root)
        pub fn dir_slots(&self, dir: u32) -> Vec<usize> {
            let mut v = vec![];
            if dir == 0 && !self.g.fat32 {
                for i in 0..self.g.root_entries as usize {
                    v.push(self.g.root_off() + i * 32);
                }
            } else {
                let mut c = if dir == 0 { 2 } else { dir };
                loop {
                    let o = self.g.clus_off(c);
                    for i in 0..self.g.bpc() / 32 {
                        v.push(o + i * 32);
                    }
                    let n = self.fat_get(c);
                    if n < 2 || n >= self.eoc() - 7 {
                        break;
                    }
                    c = n;
                }
            }
            v
        }
        /// append raw slots at the end marker of a directory (growing it if needed)
        pub fn dir_append(&mut self, dir: u32, raws: &[[u8; 32]]) {
            for raw in raws {
                let slots = self.dir_slots(dir);
                let pos = slots.iter().position(|&o| self.d[o] == 0);
                let o = match pos {
                    Some(p) => slots[p],
                    None => {
                        assert!(dir != 0 || self.g.fat32, "fat16 root full");
                        // grow
                        let mut c = if dir == 0 { 2 } else { dir };
                        loop {
                            let n = self.fat_get(c);
                            if n < 2 || n >= self.eoc() - 7 {
                                break;
                            }
                            c = n;
                        }
                        let n = self.alloc();
                        self.fat_set(c, n);
                        self.g.clus_off(n)
                    }
                };
                self.d[o..o + 32].copy_from_slice(raw);
            }
        }
        pub fn mkdir(&mut self, parent: u32, name: &[u8; 11], date: u16, time: u16) -> u32 {
            let c = self.alloc();
            let mut dot = sfn_entry(b".          ", 0x10, c, 0, date, time, date, time, 0);
            let dd = sfn_entry(b"..         ", 0x10, parent, 0, date, time, date, time, 0);
            if !self.g.fat32 {
                dot[20] = 0;
                dot[21] = 0;
            }
            let o = self.g.clus_off(c);
            self.d[o..o + 32].copy_from_slice(&dot);
            self.d[o + 32..o + 64].copy_from_slice(&dd);
            let e = sfn_entry(name, 0x10, c, 0, date, time, date, time, 0);
            self.dir_append(parent, &[e]);
            c
        }
    }

    #[allow(clippy::too_many_arguments)]
    pub fn sfn_entry(
        name: &[u8; 11],
        attr: u8,
        cluster: u32,
        size: u32,
        cdate: u16,
        ctime: u16,
        mdate: u16,
        mtime: u16,
        tenth: u8,
    ) -> [u8; 32] {
        let mut e = [0u8; 32];
        e[..11].copy_from_slice(name);
        e[11] = attr;
        e[13] = tenth;
        w16(&mut e, 14, ctime);
        w16(&mut e, 16, cdate);
        w16(&mut e, 18, cdate);
        w16(&mut e, 20, (cluster >> 16) as u16);
        w16(&mut e, 22, mtime);
        w16(&mut e, 24, mdate);
        w16(&mut e, 26, cluster as u16);
        w32(&mut e, 28, size);
        e
    }

    pub fn sfn_csum(name: &[u8]) -> u8 {
        let mut s = 0u8;
        for b in &name[..11] {
            s = s.rotate_right(1).wrapping_add(*b);
        }
        s
    }

    /// LFN slots (in on-disk order: last fragment first) for `long`
    pub fn lfn_entries(long: &str, sfn: &[u8; 11]) -> Vec<[u8; 32]> {
        let mut units: Vec<u16> = long.encode_utf16().collect();
        let n = (units.len() + 12) / 13;
        if units.len() % 13 != 0 {
            units.push(0);
            while units.len() % 13 != 0 {
                units.push(0xFFFF);
            }
        }
        let cs = sfn_csum(sfn);
        let mut out = vec![];
        for i in (0..n).rev() {
            let mut e = [0u8; 32];
            e[0] = (i as u8 + 1) | if i == n - 1 { 0x40 } else { 0 };
            e[11] = 0x0F;
            e[13] = cs;
            let pos = [1, 3, 5, 7, 9, 14, 16, 18, 20, 22, 24, 28, 30];
            for (k, p) in pos.iter().enumerate() {
                w16(&mut e, *p, units[i * 13 + k]);
            }
            out.push(e);
        }
        out
    }

    // ---------------------------------------------------------------------------
    // Independent reader (from the Microsoft FAT specification)
    // ---------------------------------------------------------------------------

    #[derive(Clone, Debug, PartialEq, Eq)]
    pub struct Ent {
        pub raw: [u8; 32],
        pub long: Option<String>,
        pub slot_off: usize,
    }
    impl Ent {
        pub fn name11(&self) -> [u8; 11] {
            let mut n = [0u8; 11];
            n.copy_from_slice(&self.raw[..11]);
            n
        }
        pub fn short(&self) -> String {
            let mut n = self.name11();
            if n[0] == 0x05 {
                n[0] = 0xE5;
            }
            let base: String = n[..8].iter().map(|&b| b as char).collect::<String>().trim_end().to_string();
            let ext: String = n[8..].iter().map(|&b| b as char).collect::<String>().trim_end().to_string();
            if ext.is_empty() {
                base
            } else {
                format!("{}.{}", base, ext)
            }
        }
        pub fn attr(&self) -> u8 {
            self.raw[11]
        }
        pub fn is_dir(&self) -> bool {
            self.raw[11] & 0x10 != 0
        }
        pub fn size(&self) -> u32 {
            r32(&self.raw, 28)
        }
        pub fn ctime(&self) -> (u16, u16, u8) {
            (r16(&self.raw, 16), r16(&self.raw, 14), self.raw[13])
        }
        pub fn mtime(&self) -> (u16, u16) {
            (r16(&self.raw, 24), r16(&self.raw, 22))
        }
    }

    pub struct Rd<'a> {
        pub d: &'a [u8],
        pub fat32: bool,
        pub part: usize,
        pub spc: usize,
        pub fat_off: usize,
        pub root_off: usize,
        pub root_entries: usize,
        pub data_off: usize,
        pub clusters: u32,
        pub root_clus: u32,
    }

    impl<'a> Rd<'a> {
        pub fn mount(d: &'a [u8], slot: usize) -> Rd<'a> {
            assert_eq!(r16(d, 510), 0xAA55);
            let p = 446 + slot * 16;
            let part = r32(d, p + 8) as usize;
            let b = &d[part * 512..part * 512 + 512];
            assert_eq!(r16(b, 510), 0xAA55);
            assert_eq!(r16(b, 11), 512);
            let spc = b[13] as usize;
            let rsvd = r16(b, 14) as usize;
            let nf = b[16] as usize;
            let rootent = r16(b, 17) as usize;
            let tot = if r16(b, 19) != 0 { r16(b, 19) as usize } else { r32(b, 32) as usize };
            let fatsz = if r16(b, 22) != 0 { r16(b, 22) as usize } else { r32(b, 36) as usize };
            let rootsecs = (rootent * 32 + 511) / 512;
            let datasec = tot - (rsvd + nf * fatsz + rootsecs);
            let clusters = (datasec / spc) as u32;
            assert!(clusters >= 4085);
            let fat32 = clusters >= 65525;
            Rd {
                d,
                fat32,
                part,
                spc,
                fat_off: (part + rsvd) * 512,
                root_off: (part + rsvd + nf * fatsz) * 512,
                root_entries: rootent,
                data_off: (part + rsvd + nf * fatsz + rootsecs) * 512,
                clusters,
                root_clus: if fat32 { r32(b, 44) } else { 0 },
            }
        }
        pub fn fat(&self, c: u32) -> u32 {
            if self.fat32 {
                r32(self.d, self.fat_off + c as usize * 4) & 0x0FFF_FFFF
            } else {
                r16(self.d, self.fat_off + c as usize * 2) as u32
            }
        }
        pub fn is_eoc(&self, v: u32) -> bool {
            if self.fat32 {
                v >= 0x0FFF_FFF8
            } else {
                v >= 0xFFF8
            }
        }
        pub fn chain(&self, first: u32) -> Result<Vec<u32>, String> {
            let mut v = vec![];
            let mut c = first;
            loop {
                if c < 2 || c >= self.clusters + 2 {
                    return Err(format!("chain from {} reaches bad cluster {}", first, c));
                }
                v.push(c);
                if v.len() > self.clusters as usize {
                    return Err("loop".into());
                }
                let n = self.fat(c);
                if self.is_eoc(n) {
                    return Ok(v);
                }
                c = n;
            }
        }
        pub fn clus(&self, c: u32) -> &[u8] {
            let o = self.data_off + (c as usize - 2) * self.spc * 512;
            &self.d[o..o + self.spc * 512]
        }
        pub fn first_cluster(&self, e: &Ent) -> u32 {
            let lo = r16(&e.raw, 26) as u32;
            if self.fat32 {
                lo | ((r16(&e.raw, 20) as u32) << 16)
            } else {
                lo
            }
        }
        pub fn read_file(&self, e: &Ent) -> Result<Vec<u8>, String> {
            let size = e.size() as usize;
            if size == 0 {
                return Ok(vec![]);
            }
            let ch = self.chain(self.first_cluster(e))?;
            let mut v = vec![];
            for c in ch {
                v.extend_from_slice(self.clus(c));
            }
            if v.len() < size {
                return Err(format!("chain shorter ({}) than size {}", v.len(), size));
            }
            v.truncate(size);
            Ok(v)
        }
        /// dir = 0 => root
        pub fn dir_bytes(&self, dir: u32) -> Result<Vec<(usize, [u8; 32])>, String> {
            let mut out = vec![];
            if dir == 0 && !self.fat32 {
                for i in 0..self.root_entries {
                    let o = self.root_off + i * 32;
                    out.push((o, self.d[o..o + 32].try_into().unwrap()));
                }
            } else {
                let first = if dir == 0 { self.root_clus } else { dir };
                for c in self.chain(first)? {
                    let o = self.data_off + (c as usize - 2) * self.spc * 512;
                    for i in 0..self.spc * 16 {
                        out.push((o + i * 32, self.d[o + i * 32..o + i * 32 + 32].try_into().unwrap()));
                    }
                }
            }
            Ok(out)
        }
        pub fn list(&self, dir: u32) -> Result<Vec<Ent>, String> {
            let mut out = vec![];
            let mut lfn: Vec<(u8, u8, Vec<u16>)> = vec![]; // (ord, csum, units)
            for (o, raw) in self.dir_bytes(dir)? {
                if raw[0] == 0 {
                    break;
                }
                if raw[0] == 0xE5 {
                    lfn.clear();
                    continue;
                }
                if raw[11] & 0x3F == 0x0F {
                    let pos = [1, 3, 5, 7, 9, 14, 16, 18, 20, 22, 24, 28, 30];
                    let units: Vec<u16> = pos.iter().map(|&p| r16(&raw, p)).collect();
                    if raw[0] & 0x40 != 0 {
                        lfn.clear();
                    }
                    lfn.push((raw[0], raw[13], units));
                    continue;
                }
                // short entry
                let mut long = None;
                if !lfn.is_empty() {
                    let cs = sfn_csum(&raw);
                    let n = lfn.len();
                    let ok = lfn[0].0 & 0x40 != 0
                        && lfn.iter().enumerate().all(|(i, l)| (l.0 & 0x1F) as usize == n - i && l.1 == cs);
                    if ok {
                        let mut units = vec![];
                        for l in lfn.iter().rev() {
                            units.extend_from_slice(&l.2);
                        }
                        if let Some(p) = units.iter().position(|&u| u == 0) {
                            units.truncate(p);
                        }
                        long = Some(String::from_utf16_lossy(&units));
                    }
                }
                lfn.clear();
                out.push(Ent { raw, long, slot_off: o });
            }
            Ok(out)
        }
        /// Whole tree: path -> (entry, contents if file)
        pub fn tree(&self) -> Result<std::collections::BTreeMap<String, (Ent, Option<Vec<u8>>)>, String> {
            let mut m = std::collections::BTreeMap::new();
            self.walk(0, "", &mut m, 0)?;
            Ok(m)
        }
        fn walk(
            &self,
            dir: u32,
            prefix: &str,
            m: &mut std::collections::BTreeMap<String, (Ent, Option<Vec<u8>>)>,
            depth: usize,
        ) -> Result<(), String> {
            assert!(depth < 16);
            for e in self.list(dir)? {
                if e.attr() & 0x08 != 0 {
                    continue; // volume label
                }
                let path = format!("{}/{}", prefix, e.short());
                if e.is_dir() {
                    let n = e.short();
                    let is_dot = n == "." || n == "..";
                    if m.insert(path.clone(), (e.clone(), None)).is_some() {
                        return Err(format!("duplicate name {}", path));
                    }
                    if !is_dot {
                        self.walk(self.first_cluster(&e), &path, m, depth + 1)?;
                    }
                } else {
                    let data = self.read_file(&e).map_err(|x| format!("{}: {}", path, x))?;
                    if m.insert(path.clone(), (e.clone(), Some(data))).is_some() {
                        return Err(format!("duplicate name {}", path));
                    }
                }
            }
            Ok(())
        }
    }

    pub struct Rng(pub u64);
    impl Rng {
        pub fn next(&mut self) -> u64 {
            self.0 ^= self.0 << 13;
            self.0 ^= self.0 >> 7;
            self.0 ^= self.0 << 17;
            self.0
        }
        pub fn below(&mut self, n: u64) -> u64 {
            self.next() % n
        }
    }
}
