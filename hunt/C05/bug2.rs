//! C05 bug 2: a write of zero bytes to a file that has no cluster yet demands
//! (and consumes) a whole cluster. On an exactly full volume the call is refused
//! with an out-of-space error although it asks for no space at all (a false
//! disk-full); on any other volume a cluster is taken out of the free pool for a
//! file that holds no data.
//!
//! Clauses violated (PROPERTY C05):
//!   "A volume accepts data up to its nominal capacity and no further: a write
//!    that does not fit reports an out-of-space error ..." - here a write that
//!   trivially fits (0 bytes) reports the out-of-space error (false disk-full);
//!   "capacity is fully usable": each empty write(..) on a fresh file removes one
//!   cluster of usable capacity while the sum of all file sizes does not change.
//!
//! History A (false disk-full), FAT16 and FAT32, no faults:
//!   1. volume with exactly 2 free clusters; create A.DAT, write 2 clusters, close
//!      -> the volume is exactly full
//!   2. create E.DAT (needs no cluster: there is a free root directory slot)
//!   3. write(E, &[])            expected Ok(()), observed Err(NotEnoughSpace)
//! History B (capacity consumed by nothing):
//!   1. volume with exactly 2 free clusters; create E.DAT; write(E, &[]); close
//!   2. create A.DAT, write 2 clusters -> expected Ok (no file holds a byte),
//!      observed Err(DiskFull) after 1 cluster; E.DAT is size 0 / first cluster 10.
//!
//! Root cause: VolumeManager::write (src/volume_mgr.rs:809-821) allocates the
//! first cluster of the file (`fat.alloc_cluster(&mut data.block_cache, None, false)?`)
//! whenever `entry.cluster < RESERVED_ENTRIES`, before it has looked at the length
//! of the buffer (bytes_to_write is only computed at line 834). The allocation
//! should only happen when there is at least one byte to store.
//! (The embedded-io `Write::write` adapter short-cuts empty buffers, the inherent
//! `File::write` / `VolumeManager::write` do not.)
//!
//! Run: copy to tests/bug2.rs, `cargo test --offline --test bug2`

use embedded_sdmmc::{
    Block, BlockCount, BlockDevice, BlockIdx, Mode, TimeSource, Timestamp, VolumeIdx,
    VolumeManager,
};
use std::cell::RefCell;
use std::rc::Rc;

#[derive(Clone)]
struct Ram(Rc<RefCell<Vec<u8>>>);

impl BlockDevice for Ram {
    type Error = ();
    fn read(&self, blocks: &mut [Block], start: BlockIdx) -> Result<(), ()> {
        let d = self.0.borrow();
        for (i, b) in blocks.iter_mut().enumerate() {
            let o = (start.0 as usize + i) * 512;
            if o + 512 > d.len() {
                return Err(());
            }
            b.contents.copy_from_slice(&d[o..o + 512]);
        }
        Ok(())
    }
    fn write(&self, blocks: &[Block], start: BlockIdx) -> Result<(), ()> {
        let mut d = self.0.borrow_mut();
        for (i, b) in blocks.iter().enumerate() {
            let o = (start.0 as usize + i) * 512;
            if o + 512 > d.len() {
                return Err(());
            }
            d[o..o + 512].copy_from_slice(&b.contents);
        }
        Ok(())
    }
    fn num_blocks(&self) -> Result<BlockCount, ()> {
        Ok(BlockCount((self.0.borrow().len() / 512) as u32))
    }
}

struct Clock;
impl TimeSource for Clock {
    fn get_timestamp(&self) -> Timestamp {
        Timestamp {
            year_since_1970: 30,
            zero_indexed_month: 1,
            zero_indexed_day: 1,
            hours: 1,
            minutes: 1,
            seconds: 2,
        }
    }
}

fn put16(d: &mut [u8], o: usize, v: u16) {
    d[o..o + 2].copy_from_slice(&v.to_le_bytes());
}
fn put32(d: &mut [u8], o: usize, v: u32) {
    d[o..o + 4].copy_from_slice(&v.to_le_bytes());
}

/// A minimal formatter: one partition at LBA 8, 1 block per cluster, 2 FATs.
/// Every data cluster is marked BAD except the ones in `free`, so that a
/// volume with a legal cluster count can be filled with a handful of writes.
struct Img {
    fat32: bool,
    count: u32,
    fat_start: usize, // block number of FAT 1
    data: Rc<RefCell<Vec<u8>>>,
}

impl Img {
    fn mkfs(fat32: bool, count: u32, free: &[u32]) -> Img {
        let lba = 8u32;
        let (reserved, esz, root_entries) = if fat32 { (32u32, 4u32, 0u32) } else { (1, 2, 64) };
        let fatsz = ((count + 2) * esz + 511) / 512;
        let root_blocks = root_entries * 32 / 512;
        let total = reserved + 2 * fatsz + root_blocks + count;
        let mut d = vec![0u8; (lba + total) as usize * 512];
        // MBR, partition 1
        d[446 + 4] = if fat32 { 0x0C } else { 0x06 };
        put32(&mut d, 446 + 8, lba);
        put32(&mut d, 446 + 12, total);
        put16(&mut d, 510, 0xAA55);
        // boot sector
        let b = lba as usize * 512;
        d[b..b + 3].copy_from_slice(&[0xEB, 0x3C, 0x90]);
        d[b + 3..b + 11].copy_from_slice(b"MSWIN4.1");
        put16(&mut d, b + 11, 512);
        d[b + 13] = 1;
        put16(&mut d, b + 14, reserved as u16);
        d[b + 16] = 2;
        put16(&mut d, b + 17, root_entries as u16);
        put32(&mut d, b + 32, total);
        d[b + 21] = 0xF8;
        if fat32 {
            put32(&mut d, b + 36, fatsz);
            put32(&mut d, b + 44, 2); // root cluster
            put16(&mut d, b + 48, 1); // FSInfo
            put16(&mut d, b + 50, 6);
            d[b + 66] = 0x29;
            d[b + 71..b + 82].copy_from_slice(b"NO NAME    ");
            d[b + 82..b + 90].copy_from_slice(b"FAT32   ");
            let i = b + 512;
            put32(&mut d, i, 0x4161_5252);
            put32(&mut d, i + 484, 0x6141_7272);
            put32(&mut d, i + 488, free.len() as u32);
            put32(&mut d, i + 492, 0xFFFF_FFFF);
            put32(&mut d, i + 508, 0xAA55_0000);
        } else {
            put16(&mut d, b + 22, fatsz as u16);
            d[b + 38] = 0x29;
            d[b + 43..b + 54].copy_from_slice(b"NO NAME    ");
            d[b + 54..b + 62].copy_from_slice(b"FAT16   ");
        }
        put16(&mut d, b + 510, 0xAA55);
        let img = Img {
            fat32,
            count,
            fat_start: (lba + reserved) as usize,
            data: Rc::new(RefCell::new(d)),
        };
        for copy in 0..2 {
            let base = (img.fat_start + copy * fatsz as usize) * 512;
            let mut d = img.data.borrow_mut();
            for c in 0..count + 2 {
                let v: u32 = match c {
                    0 => 0x0FFF_FFF8,
                    1 => 0x0FFF_FFFF,
                    2 if fat32 => 0x0FFF_FFFF, // root directory
                    c if free.contains(&c) => 0,
                    _ => 0x0FFF_FFF7, // bad cluster
                };
                if fat32 {
                    put32(&mut d, base + c as usize * 4, v);
                } else {
                    put16(&mut d, base + c as usize * 2, v as u16);
                }
            }
        }
        img
    }

    fn fat(&self, c: u32) -> u32 {
        let d = self.data.borrow();
        let base = self.fat_start * 512;
        if self.fat32 {
            let o = base + c as usize * 4;
            u32::from_le_bytes([d[o], d[o + 1], d[o + 2], d[o + 3]]) & 0x0FFF_FFFF
        } else {
            let o = base + c as usize * 2;
            u16::from_le_bytes([d[o], d[o + 1]]) as u32
        }
    }

    /// Independent FAT scan: the clusters whose entry is zero
    fn free_clusters(&self) -> Vec<u32> {
        (2..self.count + 2).filter(|&c| self.fat(c) == 0).collect()
    }
}

fn setup(fat32: bool) -> (Img, [u32; 2]) {
    let count = if fat32 { 65600 } else { 4100 };
    let free = [10u32, count + 1]; // includes the very last cluster
    let img = Img::mkfs(fat32, count, &free);
    assert_eq!(img.free_clusters(), free.to_vec());
    (img, free)
}

type Vm = VolumeManager<Ram, Clock, 4, 4, 1>;

fn history_a(fat32: bool) {
    let kind = if fat32 { "FAT32" } else { "FAT16" };
    let (img, _free) = setup(fat32);
    let vm: Vm = VolumeManager::new_with_limits(Ram(img.data.clone()), Clock, 100);
    let vol = vm.open_raw_volume(VolumeIdx(0)).expect("mount");
    let root = vm.open_root_dir(vol).expect("root");

    let f = vm
        .open_file_in_dir(root, "A.DAT", Mode::ReadWriteCreate)
        .expect("create A");
    vm.write(f, &vec![0xA5u8; 2 * 512]).expect("A fits exactly");
    vm.close_file(f).expect("close A");
    assert_eq!(img.free_clusters(), Vec::<u32>::new(), "{kind}: volume is full");

    let f = vm
        .open_file_in_dir(root, "E.DAT", Mode::ReadWriteCreate)
        .expect("creating an empty file needs no cluster");
    let r = vm.write(f, &[]);
    vm.close_file(f).expect("close E");
    vm.close_dir(root).unwrap();
    vm.close_volume(vol).unwrap();
    println!("{kind}: write(E.DAT, &[]) on an exactly full volume -> {:?}", r);
    assert!(
        r.is_ok(),
        "{kind}: a write of 0 bytes was refused with {:?} (false disk-full)",
        r
    );
}

fn history_b(fat32: bool) {
    let kind = if fat32 { "FAT32" } else { "FAT16" };
    let (img, free) = setup(fat32);
    let vm: Vm = VolumeManager::new_with_limits(Ram(img.data.clone()), Clock, 100);
    let vol = vm.open_raw_volume(VolumeIdx(0)).expect("mount");
    let root = vm.open_root_dir(vol).expect("root");

    let f = vm
        .open_file_in_dir(root, "E.DAT", Mode::ReadWriteCreate)
        .expect("create E");
    vm.write(f, &[]).expect("empty write");
    vm.close_file(f).expect("close E");
    let e = vm.find_directory_entry(root, "E.DAT").expect("E exists");
    println!(
        "{kind}: after write(E.DAT, &[]): size {} first cluster {:?}; free clusters {:?} (had {:?})",
        e.size,
        e.cluster,
        img.free_clusters(),
        free
    );
    assert_eq!(e.size, 0);

    let f = vm
        .open_file_in_dir(root, "A.DAT", Mode::ReadWriteCreate)
        .expect("create A");
    let r = vm.write(f, &vec![0xA5u8; 2 * 512]);
    let alen = vm.file_length(f).unwrap();
    vm.close_file(f).expect("close A");
    vm.close_dir(root).unwrap();
    vm.close_volume(vol).unwrap();
    println!("{kind}: writing 1024 bytes to A.DAT -> {:?}, A.DAT length {}", r, alen);
    assert!(
        r.is_ok(),
        "{kind}: the only other file is 0 bytes long, yet only {alen} of 1024 bytes \
         (2 free clusters) could be stored: {:?}",
        r
    );
}

#[test]
fn empty_write_on_full_volume_fat16() {
    history_a(false);
}

#[test]
fn empty_write_on_full_volume_fat32() {
    history_a(true);
}

#[test]
fn empty_write_consumes_no_capacity_fat16() {
    history_b(false);
}

#[test]
fn empty_write_consumes_no_capacity_fat32() {
    history_b(true);
}
