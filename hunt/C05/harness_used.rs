//! C05 hunting harness: in-memory FAT16/FAT32 images, independent FAT scan.
#![allow(dead_code)]

use embedded_sdmmc::{
    Block, BlockCount, BlockDevice, BlockIdx, Error, Mode, RawDirectory, RawVolume, TimeSource,
    Timestamp, VolumeIdx, VolumeManager,
};
use std::cell::RefCell;
use std::collections::{BTreeMap, BTreeSet};
use std::rc::Rc;

// ---------------------------------------------------------------- device

#[derive(Clone)]
struct Ram(Rc<RefCell<Vec<u8>>>);

impl BlockDevice for Ram {
    type Error = ();
    fn read(&self, blocks: &mut [Block], start: BlockIdx) -> Result<(), ()> {
        let d = self.0.borrow();
        for (i, b) in blocks.iter_mut().enumerate() {
            let o = (start.0 as usize + i) * 512;
            if o + 512 > d.len() {
                return Err(());
            }
            b.contents.copy_from_slice(&d[o..o + 512]);
        }
        Ok(())
    }
    fn write(&self, blocks: &[Block], start: BlockIdx) -> Result<(), ()> {
        let mut d = self.0.borrow_mut();
        for (i, b) in blocks.iter().enumerate() {
            let o = (start.0 as usize + i) * 512;
            if o + 512 > d.len() {
                return Err(());
            }
            d[o..o + 512].copy_from_slice(&b.contents);
        }
        Ok(())
    }
    fn num_blocks(&self) -> Result<BlockCount, ()> {
        Ok(BlockCount((self.0.borrow().len() / 512) as u32))
    }
}

struct Clock;
impl TimeSource for Clock {
    fn get_timestamp(&self) -> Timestamp {
        Timestamp {
            year_since_1970: 30,
            zero_indexed_month: 1,
            zero_indexed_day: 1,
            hours: 1,
            minutes: 1,
            seconds: 2,
        }
    }
}

// ---------------------------------------------------------------- mkfs

#[derive(Clone, Copy, Debug, PartialEq)]
enum Ft {
    F16,
    F32,
}

#[derive(Clone, Debug)]
struct Geo {
    ft: Ft,
    lba: u32,
    spc: u32,
    reserved: u32,
    nfats: u32,
    fatsz: u32,
    root_entries: u32,
    count: u32,
    total: u32,
}

impl Geo {
    fn new(ft: Ft, count: u32, spc: u32, nfats: u32, root_entries: u32) -> Geo {
        let (reserved, esz, root_entries) = match ft {
            Ft::F16 => (1, 2, root_entries),
            Ft::F32 => (32, 4, 0),
        };
        let fatsz = ((count + 2) * esz + 511) / 512;
        let root_blocks = (root_entries * 32 + 511) / 512;
        let total = reserved + nfats * fatsz + root_blocks + count * spc;
        Geo {
            ft,
            lba: 8,
            spc,
            reserved,
            nfats,
            fatsz,
            root_entries,
            count,
            total,
        }
    }
    fn root_blocks(&self) -> u32 {
        (self.root_entries * 32 + 511) / 512
    }
    fn fat_start(&self) -> u32 {
        self.lba + self.reserved
    }
    fn root_start(&self) -> u32 {
        self.fat_start() + self.nfats * self.fatsz
    }
    fn data_start(&self) -> u32 {
        self.root_start() + self.root_blocks()
    }
    fn cluster_block(&self, c: u32) -> u32 {
        self.data_start() + (c - 2) * self.spc
    }
    fn bpc(&self) -> u32 {
        self.spc * 512
    }
}

fn put16(d: &mut [u8], o: usize, v: u16) {
    d[o..o + 2].copy_from_slice(&v.to_le_bytes());
}
fn put32(d: &mut [u8], o: usize, v: u32) {
    d[o..o + 4].copy_from_slice(&v.to_le_bytes());
}
fn get16(d: &[u8], o: usize) -> u16 {
    u16::from_le_bytes([d[o], d[o + 1]])
}
fn get32(d: &[u8], o: usize) -> u32 {
    u32::from_le_bytes([d[o], d[o + 1], d[o + 2], d[o + 3]])
}

const BAD16: u32 = 0xFFF7;
const BAD32: u32 = 0x0FFF_FFF7;

struct Img {
    geo: Geo,
    data: Rc<RefCell<Vec<u8>>>,
}

impl Img {
    fn mkfs(geo: Geo) -> Img {
        let mut d = vec![0u8; ((geo.lba + geo.total) as usize) * 512];
        // MBR
        d[446] = 0;
        d[446 + 4] = if geo.ft == Ft::F16 { 0x06 } else { 0x0C };
        put32(&mut d, 446 + 8, geo.lba);
        put32(&mut d, 446 + 12, geo.total);
        put16(&mut d, 510, 0xAA55);
        // BPB
        let b = geo.lba as usize * 512;
        d[b] = 0xEB;
        d[b + 1] = 0x3C;
        d[b + 2] = 0x90;
        d[b + 3..b + 11].copy_from_slice(b"MSWIN4.1");
        put16(&mut d, b + 11, 512);
        d[b + 13] = geo.spc as u8;
        put16(&mut d, b + 14, geo.reserved as u16);
        d[b + 16] = geo.nfats as u8;
        put16(&mut d, b + 17, geo.root_entries as u16);
        if geo.total < 0x10000 && geo.ft == Ft::F16 {
            put16(&mut d, b + 19, geo.total as u16);
        } else {
            put32(&mut d, b + 32, geo.total);
        }
        d[b + 21] = 0xF8;
        match geo.ft {
            Ft::F16 => {
                put16(&mut d, b + 22, geo.fatsz as u16);
                d[b + 38] = 0x29;
                d[b + 43..b + 54].copy_from_slice(b"NO NAME    ");
                d[b + 54..b + 62].copy_from_slice(b"FAT16   ");
            }
            Ft::F32 => {
                put32(&mut d, b + 36, geo.fatsz);
                put16(&mut d, b + 42, 0);
                put32(&mut d, b + 44, 2);
                put16(&mut d, b + 48, 1);
                put16(&mut d, b + 50, 6);
                d[b + 66] = 0x29;
                d[b + 71..b + 82].copy_from_slice(b"NO NAME    ");
                d[b + 82..b + 90].copy_from_slice(b"FAT32   ");
                // FSInfo
                let i = b + 512;
                put32(&mut d, i, 0x4161_5252);
                put32(&mut d, i + 484, 0x6141_7272);
                put32(&mut d, i + 488, geo.count - 1);
                put32(&mut d, i + 492, 3);
                put32(&mut d, i + 508, 0xAA55_0000);
            }
        }
        put16(&mut d, b + 510, 0xAA55);
        let img = Img {
            geo,
            data: Rc::new(RefCell::new(d)),
        };
        match img.geo.ft {
            Ft::F16 => {
                img.set_fat(0, 0xFFF8);
                img.set_fat(1, 0xFFFF);
            }
            Ft::F32 => {
                img.set_fat(0, 0x0FFF_FFF8);
                img.set_fat(1, 0x0FFF_FFFF);
                img.set_fat(2, 0x0FFF_FFFF);
            }
        }
        img
    }

    fn set_fat(&self, c: u32, v: u32) {
        let mut d = self.data.borrow_mut();
        for f in 0..self.geo.nfats {
            let base = (self.geo.fat_start() + f * self.geo.fatsz) as usize * 512;
            match self.geo.ft {
                Ft::F16 => put16(&mut d, base + c as usize * 2, v as u16),
                Ft::F32 => put32(&mut d, base + c as usize * 4, v),
            }
        }
    }
    fn fat(&self, c: u32) -> u32 {
        self.fat_n(0, c)
    }
    fn fat_n(&self, f: u32, c: u32) -> u32 {
        let d = self.data.borrow();
        let base = (self.geo.fat_start() + f * self.geo.fatsz) as usize * 512;
        match self.geo.ft {
            Ft::F16 => get16(&d, base + c as usize * 2) as u32,
            Ft::F32 => get32(&d, base + c as usize * 4) & 0x0FFF_FFFF,
        }
    }
    fn bad(&self) -> u32 {
        if self.geo.ft == Ft::F16 {
            BAD16
        } else {
            BAD32
        }
    }
    fn is_eoc(&self, v: u32) -> bool {
        match self.geo.ft {
            Ft::F16 => v >= 0xFFF8,
            Ft::F32 => v >= 0x0FFF_FFF8,
        }
    }
    /// Mark every cluster bad, except the listed ones (and the FAT32 root)
    fn only_free(&self, free: &[u32]) {
        let keep: BTreeSet<u32> = free.iter().copied().collect();
        for c in 2..self.geo.count + 2 {
            if keep.contains(&c) {
                continue;
            }
            if self.geo.ft == Ft::F32 && c == 2 {
                continue;
            }
            self.set_fat(c, self.bad());
        }
        if self.geo.ft == Ft::F32 {
            let mut d = self.data.borrow_mut();
            let i = (self.geo.lba as usize + 1) * 512;
            put32(&mut d, i + 488, keep.iter().filter(|&&c| c != 2).count() as u32);
            put32(&mut d, i + 492, 0xFFFF_FFFF);
        }
    }

    fn used_set(&self) -> BTreeSet<u32> {
        let mut s = BTreeSet::new();
        for c in 2..self.geo.count + 2 {
            let v = self.fat(c);
            if v != 0 && v != self.bad() {
                s.insert(c);
            }
        }
        s
    }
    fn free_count(&self) -> u32 {
        (2..self.geo.count + 2).filter(|&c| self.fat(c) == 0).count() as u32
    }
    fn slack_nonzero(&self) -> Vec<(u32, u32)> {
        // entries beyond count+2 in the FAT
        let esz = if self.geo.ft == Ft::F16 { 2 } else { 4 };
        let n = self.geo.fatsz * 512 / esz;
        (self.geo.count + 2..n)
            .filter_map(|c| {
                let v = self.fat(c);
                if v != 0 {
                    Some((c, v))
                } else {
                    None
                }
            })
            .collect()
    }
    fn chain(&self, first: u32) -> Result<Vec<u32>, String> {
        let mut v = vec![];
        let mut c = first;
        loop {
            if c < 2 || c >= self.geo.count + 2 {
                return Err(format!("chain from {first} reaches out of range {c:#x}"));
            }
            if v.contains(&c) {
                return Err(format!("chain from {first} loops at {c}"));
            }
            v.push(c);
            let n = self.fat(c);
            if self.is_eoc(n) {
                return Ok(v);
            }
            if n == 0 {
                return Err(format!("chain from {first} runs into free cluster after {c}"));
            }
            if n == self.bad() {
                return Err(format!("chain from {first} runs into bad mark after {c}"));
            }
            c = n;
        }
    }
    fn fsinfo(&self) -> (u32, u32) {
        let d = self.data.borrow();
        let i = (self.geo.lba as usize + 1) * 512;
        (get32(&d, i + 488), get32(&d, i + 492))
    }

    /// Independent scan: returns (referenced clusters with owner, problems)
    fn scan(&self) -> (BTreeMap<u32, String>, Vec<String>) {
        let mut refs = BTreeMap::new();
        let mut problems = vec![];
        let root_blocks: Vec<u32> = match self.geo.ft {
            Ft::F16 => (0..self.geo.root_blocks())
                .map(|i| self.geo.root_start() + i)
                .collect(),
            Ft::F32 => match self.chain(2) {
                Ok(ch) => {
                    let mut v = vec![];
                    for c in ch {
                        if let Some(o) = refs.insert(c, "/".to_string()) {
                            problems.push(format!("cluster {c} in / and {o}"));
                        }
                        for i in 0..self.geo.spc {
                            v.push(self.geo.cluster_block(c) + i);
                        }
                    }
                    v
                }
                Err(e) => {
                    problems.push(e);
                    vec![]
                }
            },
        };
        self.scan_dir("/", &root_blocks, &mut refs, &mut problems, 0);
        for f in 1..self.geo.nfats {
            for c in 0..self.geo.count + 2 {
                if self.fat_n(0, c) != self.fat_n(f, c) {
                    problems.push(format!("FAT copies differ at {c}"));
                    break;
                }
            }
        }
        (refs, problems)
    }

    fn scan_dir(
        &self,
        path: &str,
        blocks: &[u32],
        refs: &mut BTreeMap<u32, String>,
        problems: &mut Vec<String>,
        depth: u32,
    ) {
        if depth > 8 {
            problems.push("too deep".into());
            return;
        }
        let mut entries = vec![];
        {
            let d = self.data.borrow();
            'outer: for &b in blocks {
                for i in 0..16 {
                    let o = b as usize * 512 + i * 32;
                    let e = &d[o..o + 32];
                    if e[0] == 0 {
                        break 'outer;
                    }
                    if e[0] == 0xE5 {
                        continue;
                    }
                    let attr = e[11];
                    if attr & 0x0F == 0x0F {
                        continue;
                    }
                    if attr & 0x08 != 0 {
                        continue;
                    }
                    let name = String::from_utf8_lossy(&e[0..11]).to_string();
                    if name.starts_with(". ") || name.starts_with(".. ") {
                        continue;
                    }
                    let lo = get16(e, 26) as u32;
                    let hi = if self.geo.ft == Ft::F32 {
                        get16(e, 20) as u32
                    } else {
                        0
                    };
                    let size = get32(e, 28);
                    entries.push((name, attr, (hi << 16) | lo, size));
                }
            }
        }
        for (name, attr, first, size) in entries {
            let p = format!("{path}{}", name.trim());
            let is_dir = attr & 0x10 != 0;
            if first == 0 {
                if size != 0 {
                    problems.push(format!("{p}: size {size} but no cluster"));
                }
                if is_dir {
                    problems.push(format!("{p}: dir with cluster 0"));
                }
                continue;
            }
            match self.chain(first) {
                Ok(ch) => {
                    for &c in &ch {
                        if let Some(o) = refs.insert(c, p.clone()) {
                            problems.push(format!("cluster {c} in {p} and {o}"));
                        }
                    }
                    if is_dir {
                        let mut v = vec![];
                        for c in ch {
                            for i in 0..self.geo.spc {
                                v.push(self.geo.cluster_block(c) + i);
                            }
                        }
                        self.scan_dir(&format!("{p}/"), &v, refs, problems, depth + 1);
                    } else {
                        let cap = ch.len() as u64 * self.geo.bpc() as u64;
                        if size as u64 > cap {
                            problems.push(format!("{p}: size {size} > chain capacity {cap}"));
                        }
                    }
                }
                Err(e) => problems.push(format!("{p}: {e}")),
            }
        }
    }

    /// The C05 invariant: used == referenced. Returns a description of the violation.
    fn check(&self) -> Result<(), String> {
        let (refs, problems) = self.scan();
        let used = self.used_set();
        let referenced: BTreeSet<u32> = refs.keys().copied().collect();
        let leaked: Vec<u32> = used.difference(&referenced).copied().collect();
        let ghost: Vec<u32> = referenced.difference(&used).copied().collect();
        let mut msg = String::new();
        if !leaked.is_empty() {
            msg += &format!("LEAKED (in use, referenced by nothing): {:?}\n", leaked);
        }
        if !ghost.is_empty() {
            msg += &format!("REFERENCED BUT FREE: {:?}\n", ghost);
        }
        if !problems.is_empty() {
            msg += &format!("PROBLEMS: {:?}\n", problems);
        }
        let slack = self.slack_nonzero();
        if !slack.is_empty() {
            msg += &format!("SLACK: {:?}\n", slack);
        }
        if msg.is_empty() {
            Ok(())
        } else {
            Err(msg)
        }
    }

    fn dev(&self) -> Ram {
        Ram(self.data.clone())
    }

    /// Raw write of a dir entry in FAT16 root / FAT32 root first cluster, slot n
    fn put_root_entry(&self, slot: usize, name: &[u8; 11], attr: u8, first: u32, size: u32) {
        let base = match self.geo.ft {
            Ft::F16 => self.geo.root_start(),
            Ft::F32 => self.geo.cluster_block(2),
        } as usize
            * 512
            + slot * 32;
        let mut d = self.data.borrow_mut();
        d[base..base + 11].copy_from_slice(name);
        d[base + 11] = attr;
        put16(&mut d, base + 26, first as u16);
        put16(&mut d, base + 20, (first >> 16) as u16);
        put32(&mut d, base + 28, size);
    }
}

type Vm = VolumeManager<Ram, Clock, 8, 4, 1>;

fn mount(img: &Img) -> (Vm, RawVolume, RawDirectory) {
    let vm: Vm = VolumeManager::new_with_limits(img.dev(), Clock, 100);
    let v = vm.open_raw_volume(VolumeIdx(0)).expect("mount");
    let r = vm.open_root_dir(v).expect("root");
    (vm, v, r)
}

fn is_full<E: core::fmt::Debug>(e: &Error<E>) -> bool {
    matches!(e, Error::DiskFull | Error::NotEnoughSpace)
}

// ---------------------------------------------------------------- rng
struct Rng(u64);
impl Rng {
    fn next(&mut self) -> u64 {
        self.0 ^= self.0 << 13;
        self.0 ^= self.0 >> 7;
        self.0 ^= self.0 << 17;
        self.0
    }
    fn below(&mut self, n: u64) -> u64 {
        self.next() % n
    }
}

// ---------------------------------------------------------------- random histories

fn clusters_for(size: u64, bpc: u64) -> u64 {
    (size + bpc - 1) / bpc
}

fn run_history(img: &Img, seed: u64, steps: usize, remount_every: usize) -> Result<(), String> {
    let bpc = img.geo.bpc() as u64;
    let mut rng = Rng(seed.wrapping_mul(0x9E37_79B9_7F4A_7C15) | 1);
    // model: dir path index -> files name->size
    let dirs = ["", "D1", "D1/D2"]; // created lazily
    let mut dir_made = [true, false, false];
    let mut files: BTreeMap<(usize, String), Vec<u8>> = BTreeMap::new();
    let (mut vm, mut vol, mut root) = mount(img);
    for step in 0..steps {
        if remount_every != 0 && step % remount_every == remount_every - 1 {
            vm.close_dir(root).unwrap();
            vm.close_volume(vol).unwrap();
            drop(vm);
            let m = mount(img);
            vm = m.0;
            vol = m.1;
            root = m.2;
        }
        let di = rng.below(3) as usize;
        let open_dir = |vm: &Vm, di: usize| -> Option<RawDirectory> {
            match di {
                0 => Some(vm.open_dir(root, ".").unwrap()),
                1 => vm.open_dir(root, "D1").ok(),
                _ => {
                    let d1 = vm.open_dir(root, "D1").ok()?;
                    let r = vm.open_dir(d1, "D2").ok();
                    vm.close_dir(d1).unwrap();
                    r
                }
            }
        };
        let free_before = img.free_count() as u64;
        let op = rng.below(10);
        let name = format!("F{}.DAT", rng.below(6));
        let what;
        match op {
            0 => {
                // mkdir
                if !dir_made[di] && (di == 0 || dir_made[di - 1]) {
                    let parent = open_dir(&vm, di - 1).unwrap();
                    let r = vm.make_dir_in_dir(parent, if di == 1 { "D1" } else { "D2" });
                    vm.close_dir(parent).unwrap();
                    what = format!("mkdir {} -> {:?}", dirs[di], r);
                    match r {
                        Ok(()) => dir_made[di] = true,
                        Err(ref e) if is_full(e) => {
                            if free_before >= 2 {
                                return Err(format!(
                                    "step {step}: {what}: false disk full, free={free_before}"
                                ));
                            }
                        }
                        Err(e) => return Err(format!("step {step}: mkdir error {e:?}")),
                    }
                } else {
                    what = "nop".to_string();
                }
            }
            1 | 2 => {
                // delete
                if let Some(d) = open_dir(&vm, di) {
                    let r = vm.delete_file_in_dir(d, name.as_str());
                    vm.close_dir(d).unwrap();
                    what = format!("delete {}/{} -> {:?}", dirs[di], name, r);
                    let had = files.remove(&(di, name.clone())).is_some();
                    match r {
                        Ok(()) if had => {}
                        Err(Error::NotFound) if !had => {}
                        other => return Err(format!("step {step}: {what}: unexpected {other:?}")),
                    }
                } else {
                    what = "nop".into();
                }
            }
            _ => {
                // open + write
                if let Some(d) = open_dir(&vm, di) {
                    let mode = match rng.below(3) {
                        0 => Mode::ReadWriteCreateOrTruncate,
                        1 => Mode::ReadWriteCreateOrAppend,
                        _ => Mode::ReadWriteCreateOrAppend,
                    };
                    let len = match rng.below(6) {
                        0 => 0,
                        1 => rng.below(bpc) + 1,
                        2 => bpc,
                        3 => bpc * (rng.below(4) + 1),
                        4 => bpc * (rng.below(8)) + rng.below(bpc),
                        _ => bpc * 40,
                    } as usize;
                    let fill = (rng.below(250) + 1) as u8;
                    let buf = vec![fill; len];
                    let existed = files.contains_key(&(di, name.clone()));
                    let f = vm.open_file_in_dir(d, name.as_str(), mode);
                    let f = match f {
                        Ok(f) => f,
                        Err(ref e) if is_full(e) && !existed => {
                            // directory needed extension
                            vm.close_dir(d).unwrap();
                            if free_before >= 1 {
                                return Err(format!(
                                    "step {step}: create {}/{name}: false full {e:?} free={free_before}",
                                    dirs[di]
                                ));
                            }
                            img.check().map_err(|m| {
                                format!("step {step}: after failed create {}/{name}:\n{m}", dirs[di])
                            })?;
                            continue;
                        }
                        Err(e) => {
                            return Err(format!("step {step}: open {}/{name}: {e:?}", dirs[di]))
                        }
                    };
                    let content = files.entry((di, name.clone())).or_default();
                    if mode == Mode::ReadWriteCreateOrTruncate {
                        content.clear();
                    }
                    let free_mid = img.free_count() as u64;
                    let old = content.len() as u64;
                    // clusters the file holds now (truncate keeps the first)
                    let held = {
                        let e = vm.find_directory_entry(d, name.as_str()).unwrap();
                        let _ = e;
                        clusters_for(old, bpc)
                    };
                    let r = vm.write(f, &buf);
                    let newlen = vm.file_length(f).unwrap() as u64;
                    let cr = vm.close_file(f);
                    vm.close_dir(d).unwrap();
                    what = format!(
                        "write {}/{} mode {:?} old {} +{} -> {:?} newlen {} (free before {} mid {})",
                        dirs[di], name, mode, old, len, r, newlen, free_before, free_mid
                    );
                    cr.map_err(|e| format!("step {step}: close {e:?}"))?;
                    let _ = held;
                    match r {
                        Ok(()) => {
                            if newlen != old + len as u64 {
                                return Err(format!("step {step}: {what}: bad length"));
                            }
                            content.extend_from_slice(&buf);
                        }
                        Err(ref e) if is_full(e) => {
                            // must have used every free cluster
                            if img.free_count() != 0 {
                                return Err(format!(
                                    "step {step}: {what}: disk full reported but {} clusters free",
                                    img.free_count()
                                ));
                            }
                            if newlen < old || newlen > old + len as u64 {
                                return Err(format!("step {step}: {what}: weird length"));
                            }
                            let kept = (newlen - old) as usize;
                            content.extend_from_slice(&buf[..kept]);
                        }
                        Err(e) => return Err(format!("step {step}: {what}: error {e:?}")),
                    }
                } else {
                    what = "nop".into();
                }
            }
        }
        img.check()
            .map_err(|m| format!("seed {seed} step {step}: after {what}:\n{m}"))?;
        // capacity accounting: free + referenced + bad == count is implied by check()
    }
    // read back everything
    for ((di, name), content) in &files {
        let d = match di {
            0 => vm.open_dir(root, ".").unwrap(),
            1 => vm.open_dir(root, "D1").unwrap(),
            _ => {
                let d1 = vm.open_dir(root, "D1").unwrap();
                let r = vm.open_dir(d1, "D2").unwrap();
                vm.close_dir(d1).unwrap();
                r
            }
        };
        let f = vm
            .open_file_in_dir(d, name.as_str(), Mode::ReadOnly)
            .map_err(|e| format!("readback open {name}: {e:?}"))?;
        let mut got = vec![0u8; content.len() + 10];
        let mut n = 0;
        loop {
            let k = vm.read(f, &mut got[n..]).map_err(|e| format!("read {e:?}"))?;
            if k == 0 {
                break;
            }
            n += k;
        }
        vm.close_file(f).unwrap();
        vm.close_dir(d).unwrap();
        if n != content.len() || got[..n] != content[..] {
            return Err(format!(
                "seed {seed}: readback mismatch {}/{name}: len {} vs model {}",
                dirs[*di],
                n,
                content.len()
            ));
        }
    }
    vm.close_dir(root).unwrap();
    vm.close_volume(vol).unwrap();
    if img.geo.ft == Ft::F32 {
        let (fc, _nf) = img.fsinfo();
        if fc != 0xFFFF_FFFF && fc != img.free_count() {
            return Err(format!(
                "seed {seed}: FSInfo free count {} vs FAT scan {}",
                fc,
                img.free_count()
            ));
        }
    }
    Ok(())
}

fn small_free_sets(count: u32) -> Vec<Vec<u32>> {
    let last = count + 1;
    vec![
        (2..26).collect(),
        (last - 23..=last).collect(),
        vec![3, 4, 5, 9, 10, 200, 201, 255, 256, 257, 300, last - 2, last - 1, last],
        vec![2, 3, 127, 128, 129, 255, 256, 1000, 1001, last - 300, last - 1, last, 17, 18, 19, 20],
    ]
}

#[test]
fn random_fat16() {
    let mut fails = vec![];
    for (gi, count) in [4085u32, 4094, 4350, 4352, 4606].into_iter().enumerate() {
        for spc in [1u32, 2] {
            for (fi, free) in small_free_sets(count).into_iter().enumerate() {
                for seed in 1..6u64 {
                    let img = Img::mkfs(Geo::new(Ft::F16, count, spc, 2, 64));
                    img.only_free(&free);
                    if let Err(e) = run_history(&img, seed + 100 * fi as u64, 150, 37) {
                        fails.push(format!("F16 count {count} spc {spc} free#{fi} g{gi}: {e}"));
                    }
                }
            }
        }
    }
    for f in fails.iter().take(10) {
        println!("{f}\n");
    }
    assert!(fails.is_empty(), "{} failures", fails.len());
}

#[test]
fn random_fat32() {
    let mut fails = vec![];
    for count in [65525u32, 65534, 65662, 65664] {
        for spc in [1u32] {
            for (fi, free) in small_free_sets(count).into_iter().enumerate() {
                for seed in 1..4u64 {
                    let img = Img::mkfs(Geo::new(Ft::F32, count, spc, 2, 0));
                    img.only_free(&free);
                    if let Err(e) = run_history(&img, seed + 100 * fi as u64, 150, 37) {
                        fails.push(format!("F32 count {count} spc {spc} free#{fi}: {e}"));
                    }
                }
            }
        }
    }
    for f in fails.iter().take(10) {
        println!("{f}\n");
    }
    assert!(fails.is_empty(), "{} failures", fails.len());
}

// ---------------------------------------------------------------- directed

fn geo16(count: u32, spc: u32) -> Geo {
    Geo::new(Ft::F16, count, spc, 2, 64)
}

fn report(name: &str, r: Result<(), String>, fails: &mut Vec<String>) {
    if let Err(e) = r {
        println!("[{name}] {e}");
        fails.push(name.to_string());
    }
}

fn write_new(vm: &Vm, d: RawDirectory, name: &str, len: usize) -> Result<u32, String> {
    let f = vm
        .open_file_in_dir(d, name, Mode::ReadWriteCreateOrTruncate)
        .map_err(|e| format!("open {name}: {e:?}"))?;
    let r = vm.write(f, &vec![0x5A; len]);
    let l = vm.file_length(f).unwrap();
    vm.close_file(f).map_err(|e| format!("close {e:?}"))?;
    match r {
        Ok(()) => Ok(l),
        Err(e) => Err(format!("write {name} {len}: {e:?} (len now {l})")),
    }
}

#[test]
fn directed() {
    let mut fails = vec![];
    for ft in [Ft::F16, Ft::F32] {
        let count = if ft == Ft::F16 { 4100 } else { 65600 };
        let last = count + 1;
        // ---- A: truncate leaves a cluster with a zero-length file
        {
            let img = Img::mkfs(Geo::new(ft, count, 1, 2, 64));
            img.only_free(&[10, 11, 12, 13, last]);
            let (vm, _v, root) = mount(&img);
            let r = (|| -> Result<(), String> {
                write_new(&vm, root, "A.DAT", 5 * 512)?;
                img.check()?;
                if img.free_count() != 0 {
                    return Err("not full".into());
                }
                let f = vm
                    .open_file_in_dir(root, "A.DAT", Mode::ReadWriteTruncate)
                    .map_err(|e| format!("{e:?}"))?;
                vm.close_file(f).unwrap();
                img.check()?;
                let e = vm.find_directory_entry(root, "A.DAT").unwrap();
                println!("{ft:?} A: after truncate size {} cluster {:?} free {}", e.size, e.cluster, img.free_count());
                let l = write_new(&vm, root, "B.DAT", 5 * 512);
                println!("{ft:?} A: write B 5 clusters -> {:?}", l);
                if img.free_count() != 0 || l.is_ok() == false {
                    return Err(format!("truncated empty A pins a cluster: B write {l:?}"));
                }
                Ok(())
            })();
            report(&format!("{ft:?} A truncate keeps first cluster"), r, &mut fails);
        }
        // ---- B: empty write on a full volume
        {
            let img = Img::mkfs(Geo::new(ft, count, 1, 2, 64));
            img.only_free(&[10, last]);
            let (vm, _v, root) = mount(&img);
            let r = (|| -> Result<(), String> {
                write_new(&vm, root, "A.DAT", 2 * 512)?;
                let f = vm
                    .open_file_in_dir(root, "E.DAT", Mode::ReadWriteCreate)
                    .map_err(|e| format!("{e:?}"))?;
                let r = vm.write(f, &[]);
                vm.close_file(f).unwrap();
                img.check()?;
                r.map_err(|e| format!("empty write on full volume: {e:?}"))
            })();
            report(&format!("{ft:?} B empty write full"), r, &mut fails);
            // and on a non-full volume: does a zero-length file get a cluster?
            let img = Img::mkfs(Geo::new(ft, count, 1, 2, 64));
            img.only_free(&[10, last]);
            let (vm, _v, root) = mount(&img);
            let f = vm.open_file_in_dir(root, "E.DAT", Mode::ReadWriteCreate).unwrap();
            vm.write(f, &[]).unwrap();
            vm.close_file(f).unwrap();
            println!("{ft:?} B2: free after empty write {} (of 2), check {:?}", img.free_count(), img.check());
        }
        // ---- C: directory extension at the limit
        for spc in [1u32, 2] {
            let img = Img::mkfs(Geo::new(ft, count, spc, 2, 64));
            img.only_free(&[10, 11, 12, last]);
            let (vm, _v, root) = mount(&img);
            let r = (|| -> Result<(), String> {
                vm.make_dir_in_dir(root, "D").map_err(|e| format!("{e:?}"))?;
                let d = vm.open_dir(root, "D").unwrap();
                let per = 16 * spc as usize;
                for i in 0..per - 2 {
                    let f = vm
                        .open_file_in_dir(d, format!("N{i}").as_str(), Mode::ReadWriteCreate)
                        .map_err(|e| format!("create N{i}: {e:?}"))?;
                    vm.close_file(f).unwrap();
                }
                img.check()?;
                if img.free_count() != 3 {
                    return Err(format!("free {}", img.free_count()));
                }
                // use 2 of the 3 free clusters
                write_new(&vm, root, "X.DAT", 2 * 512 * spc as usize)?;
                // mkdir needs 2 (new dir + extension), only 1 free
                let r = vm.make_dir_in_dir(d, "SUB");
                println!("{ft:?} C spc{spc}: mkdir with 1 free needing extension -> {r:?}, free {}", img.free_count());
                img.check()?;
                if r.is_ok() {
                    return Err("mkdir succeeded??".into());
                }
                if img.free_count() != 1 {
                    return Err(format!("free after failed mkdir {}", img.free_count()));
                }
                // create needs 1 => ok
                let f = vm
                    .open_file_in_dir(d, "LAST", Mode::ReadWriteCreate)
                    .map_err(|e| format!("create LAST: {e:?}"))?;
                vm.close_file(f).unwrap();
                img.check()?;
                if img.free_count() != 0 {
                    return Err(format!("free after ext {}", img.free_count()));
                }
                // delete X -> 2 free, mkdir ok
                vm.delete_file_in_dir(root, "X.DAT").map_err(|e| format!("{e:?}"))?;
                img.check()?;
                vm.make_dir_in_dir(d, "SUB").map_err(|e| format!("mkdir2 {e:?}"))?;
                img.check()?;
                vm.close_dir(d).unwrap();
                Ok(())
            })();
            report(&format!("{ft:?} C dir extension spc{spc}"), r, &mut fails);
        }
        // ---- D: pre-existing odd files
        {
            let img = Img::mkfs(Geo::new(ft, count, 1, 2, 64));
            img.only_free(&[10, 11, 12, 13, 14, 15, 16, 17, 18, last]);
            let eoc = if ft == Ft::F16 { 0xFFFF } else { 0x0FFF_FFFF };
            // Z.DAT size 0, chain 10->11->12
            img.set_fat(10, 11);
            img.set_fat(11, 12);
            img.set_fat(12, eoc);
            img.put_root_entry(0, b"Z       DAT", 0x20, 10, 0);
            // S.DAT size 100, chain 13->14->15
            img.set_fat(13, 14);
            img.set_fat(14, 15);
            img.set_fat(15, eoc);
            img.put_root_entry(1, b"S       DAT", 0x20, 13, 100);
            // Y.DAT size 0, chain 16->17
            img.set_fat(16, 17);
            img.set_fat(17, eoc);
            img.put_root_entry(2, b"Y       DAT", 0x20, 16, 0);
            let r = (|| -> Result<(), String> {
                img.check()?;
                let (vm, v, root) = mount(&img);
                // truncate-open Z
                let f = vm.open_file_in_dir(root, "Z.DAT", Mode::ReadWriteTruncate).map_err(|e| format!("{e:?}"))?;
                vm.close_file(f).unwrap();
                img.check()?;
                println!("{ft:?} D: after truncate of Z (size0, 3 clusters): free {}", img.free_count());
                // append to S
                let f = vm.open_file_in_dir(root, "S.DAT", Mode::ReadWriteAppend).map_err(|e| format!("{e:?}"))?;
                vm.write(f, &vec![1u8; 3 * 512]).map_err(|e| format!("append S {e:?}"))?;
                vm.close_file(f).unwrap();
                img.check()?;
                println!("{ft:?} D: after append S: free {}", img.free_count());
                // delete Y
                vm.delete_file_in_dir(root, "Y.DAT").map_err(|e| format!("{e:?}"))?;
                img.check()?;
                vm.delete_file_in_dir(root, "Z.DAT").map_err(|e| format!("{e:?}"))?;
                vm.delete_file_in_dir(root, "S.DAT").map_err(|e| format!("{e:?}"))?;
                img.check()?;
                if img.free_count() != 10 {
                    return Err(format!("free at end {}", img.free_count()));
                }
                vm.close_dir(root).unwrap();
                vm.close_volume(v).unwrap();
                Ok(())
            })();
            report(&format!("{ft:?} D odd files"), r, &mut fails);
        }
    }
    assert!(fails.is_empty(), "{fails:?}");
}

// ---------------------------------------------------------------- richer random histories

fn run_history2(img: &Img, seed: u64, steps: usize, nnames: u64) -> Result<(), String> {
    let bpc = img.geo.bpc() as u64;
    let mut rng = Rng(seed.wrapping_mul(0x9E37_79B9_7F4A_7C15) | 1);
    let dirs = ["", "D1", "D1/D2"];
    let mut dir_made = [true, false, false];
    let mut files: BTreeMap<(usize, String), Vec<u8>> = BTreeMap::new();
    let (vm, vol, root) = mount(img);
    let open_dir = |vm: &Vm, di: usize| -> Option<RawDirectory> {
        match di {
            0 => Some(vm.open_dir(root, ".").unwrap()),
            1 => vm.open_dir(root, "D1").ok(),
            _ => {
                let d1 = vm.open_dir(root, "D1").ok()?;
                let r = vm.open_dir(d1, "D2").ok();
                vm.close_dir(d1).unwrap();
                r
            }
        }
    };
    for step in 0..steps {
        let di = rng.below(3) as usize;
        let op = rng.below(10);
        let what;
        match op {
            0 => {
                if !dir_made[di] && (di == 0 || dir_made[di - 1]) {
                    let free_before = img.free_count();
                    let parent = open_dir(&vm, di - 1).unwrap();
                    let r = vm.make_dir_in_dir(parent, if di == 1 { "D1" } else { "D2" });
                    vm.close_dir(parent).unwrap();
                    what = format!("mkdir {} -> {:?}", dirs[di], r);
                    match r {
                        Ok(()) => dir_made[di] = true,
                        Err(ref e) if is_full(e) => {
                            if free_before >= 2 {
                                return Err(format!("step {step}: {what}: false full"));
                            }
                        }
                        Err(e) => return Err(format!("step {step}: mkdir error {e:?}")),
                    }
                } else {
                    what = "nop".to_string();
                }
            }
            1 | 2 | 3 => {
                let name = format!("F{}.DAT", rng.below(nnames));
                if let Some(d) = open_dir(&vm, di) {
                    let r = vm.delete_file_in_dir(d, name.as_str());
                    vm.close_dir(d).unwrap();
                    what = format!("delete {}/{} -> {:?}", dirs[di], name, r);
                    let had = files.remove(&(di, name.clone())).is_some();
                    match r {
                        Ok(()) if had => {}
                        Err(Error::NotFound) if !had => {}
                        other => return Err(format!("step {step}: {what}: unexpected {other:?}")),
                    }
                } else {
                    what = "nop".into();
                }
            }
            _ => {
                // open one or two files, interleave
                let nopen = 1 + rng.below(2) as usize;
                let mut handles: Vec<(usize, String, embedded_sdmmc::RawFile, u64)> = vec![];
                let mut log = String::new();
                for k in 0..nopen {
                    let di = if k == 0 { di } else { rng.below(3) as usize };
                    let name = format!("F{}.DAT", rng.below(nnames));
                    if handles.iter().any(|h| h.0 == di && h.1 == name) {
                        continue;
                    }
                    let Some(d) = open_dir(&vm, di) else { continue };
                    let mode = if rng.below(3) == 0 {
                        Mode::ReadWriteCreateOrTruncate
                    } else {
                        Mode::ReadWriteCreateOrAppend
                    };
                    let existed = files.contains_key(&(di, name.clone()));
                    let free_before = img.free_count();
                    let r = vm.open_file_in_dir(d, name.as_str(), mode);
                    vm.close_dir(d).unwrap();
                    log += &format!("open {}/{name} {mode:?} -> {:?}; ", dirs[di], r.as_ref().map(|_| ()));
                    match r {
                        Ok(f) => {
                            let c = files.entry((di, name.clone())).or_default();
                            if mode == Mode::ReadWriteCreateOrTruncate {
                                c.clear();
                            }
                            let pos = c.len() as u64;
                            handles.push((di, name, f, pos));
                        }
                        Err(ref e) if is_full(e) && !existed => {
                            if free_before >= 1 {
                                return Err(format!("step {step}: {log}: false full on create"));
                            }
                        }
                        Err(e) => return Err(format!("step {step}: {log}: {e:?}")),
                    }
                }
                let nsub = rng.below(6);
                for _ in 0..nsub {
                    if handles.is_empty() {
                        break;
                    }
                    let hi = rng.below(handles.len() as u64) as usize;
                    let (di, name, f, pos) = handles[hi].clone();
                    let content = files.get_mut(&(di, name.clone())).unwrap();
                    match rng.below(5) {
                        0 => {
                            let to = rng.below(content.len() as u64 + 1);
                            vm.file_seek_from_start(f, to as u32).map_err(|e| format!("seek {e:?}"))?;
                            handles[hi].3 = to;
                            log += &format!("seek {name} {to}; ");
                        }
                        1 => {
                            vm.flush_file(f).map_err(|e| format!("flush {e:?}"))?;
                            log += &format!("flush {name}; ");
                        }
                        _ => {
                            let len = match rng.below(6) {
                                0 => 0,
                                1 => rng.below(bpc) + 1,
                                2 => bpc,
                                3 => bpc * (rng.below(4) + 1),
                                4 => bpc * (rng.below(8)) + rng.below(bpc),
                                _ => bpc * 40,
                            } as usize;
                            let fill = (rng.below(250) + 1) as u8;
                            let buf = vec![fill; len];
                            let r = vm.write(f, &buf);
                            let newlen = vm.file_length(f).unwrap() as u64;
                            let newpos = vm.file_offset(f).unwrap() as u64;
                            log += &format!("write {name} @{pos}+{len} -> {r:?} len {newlen}; ");
                            let wrote = match r {
                                Ok(()) => len as u64,
                                Err(ref e) if is_full(e) => {
                                    if img.free_count() != 0 {
                                        return Err(format!(
                                            "seed {seed} step {step}: {log}: full reported with {} free",
                                            img.free_count()
                                        ));
                                    }
                                    newpos - pos
                                }
                                Err(e) => return Err(format!("step {step}: {log}: {e:?}")),
                            };
                            if newpos != pos + wrote {
                                return Err(format!("step {step}: {log}: pos {newpos}"));
                            }
                            let end = (pos + wrote) as usize;
                            if content.len() < end {
                                content.resize(end, 0);
                            }
                            content[pos as usize..end].copy_from_slice(&buf[..wrote as usize]);
                            if newlen != content.len() as u64 {
                                return Err(format!("step {step}: {log}: len {newlen} model {}", content.len()));
                            }
                            handles[hi].3 = newpos;
                        }
                    }
                }
                for (_, _, f, _) in handles {
                    vm.close_file(f).map_err(|e| format!("close {e:?}"))?;
                }
                what = log;
            }
        }
        img.check()
            .map_err(|m| format!("seed {seed} step {step}: after {what}:\n{m}"))?;
    }
    for ((di, name), content) in &files {
        let d = open_dir(&vm, *di).unwrap();
        let f = vm
            .open_file_in_dir(d, name.as_str(), Mode::ReadOnly)
            .map_err(|e| format!("readback open {name}: {e:?}"))?;
        let mut got = vec![0u8; content.len() + 10];
        let mut n = 0;
        loop {
            let k = vm.read(f, &mut got[n..]).map_err(|e| format!("read {e:?}"))?;
            if k == 0 {
                break;
            }
            n += k;
        }
        vm.close_file(f).unwrap();
        vm.close_dir(d).unwrap();
        if n != content.len() || got[..n] != content[..] {
            return Err(format!(
                "seed {seed}: readback mismatch {}/{name}: len {} vs model {}",
                dirs[*di],
                n,
                content.len()
            ));
        }
    }
    vm.close_dir(root).unwrap();
    vm.close_volume(vol).unwrap();
    if img.geo.ft == Ft::F32 {
        let (fc, _nf) = img.fsinfo();
        if fc != 0xFFFF_FFFF && fc != img.free_count() {
            return Err(format!("seed {seed}: FSInfo free count {} vs FAT scan {}", fc, img.free_count()));
        }
    }
    Ok(())
}

#[test]
fn random2_fat16() {
    let mut fails = vec![];
    for count in [4085u32, 4350, 4352] {
        for (spc, nfats) in [(1u32, 2u32), (2, 1), (4, 2)] {
            for (fi, free) in small_free_sets(count).into_iter().enumerate() {
                for seed in 1..8u64 {
                    let img = Img::mkfs(Geo::new(Ft::F16, count, spc, nfats, 32));
                    img.only_free(&free);
                    if let Err(e) = run_history2(&img, seed + 100 * fi as u64, 200, 30) {
                        fails.push(format!("F16 count {count} spc {spc} nfats {nfats} free#{fi}: {e}"));
                    }
                }
            }
        }
    }
    for f in fails.iter().take(10) {
        println!("{f}\n");
    }
    assert!(fails.is_empty(), "{} failures", fails.len());
}

#[test]
fn random2_fat32() {
    let mut fails = vec![];
    for count in [65525u32, 65662] {
        for (spc, nfats) in [(1u32, 2u32), (2, 1)] {
            for (fi, free) in small_free_sets(count).into_iter().enumerate() {
                for seed in 1..4u64 {
                    let img = Img::mkfs(Geo::new(Ft::F32, count, spc, nfats, 0));
                    img.only_free(&free);
                    if let Err(e) = run_history2(&img, seed + 100 * fi as u64, 120, 30) {
                        fails.push(format!("F32 count {count} spc {spc} nfats {nfats} free#{fi}: {e}"));
                    }
                }
            }
        }
    }
    for f in fails.iter().take(10) {
        println!("{f}\n");
    }
    assert!(fails.is_empty(), "{} failures", fails.len());
}

#[test]
fn directed2() {
    let mut fails = vec![];
    // FAT32 root extension, full volume
    {
        let count = 65600;
        let last = count + 1;
        let img = Img::mkfs(Geo::new(Ft::F32, count, 1, 2, 0));
        img.only_free(&[7, 8, last]);
        let (vm, v, root) = mount(&img);
        let r = (|| -> Result<(), String> {
            for i in 0..16 {
                let f = vm
                    .open_file_in_dir(root, format!("N{i}").as_str(), Mode::ReadWriteCreate)
                    .map_err(|e| format!("create N{i}: {e:?}"))?;
                vm.close_file(f).unwrap();
            }
            img.check()?;
            println!("free after 16 root entries: {}", img.free_count());
            // 17th needs root extension
            let f = vm
                .open_file_in_dir(root, "N16", Mode::ReadWriteCreate)
                .map_err(|e| format!("create N16: {e:?}"))?;
            vm.close_file(f).unwrap();
            img.check()?;
            println!("free after 17 root entries: {}", img.free_count());
            write_new(&vm, root, "N0", 2 * 512)?;
            img.check()?;
            if img.free_count() != 0 {
                return Err("not full".into());
            }
            for i in 17..32 {
                let f = vm
                    .open_file_in_dir(root, format!("N{i}").as_str(), Mode::ReadWriteCreate)
                    .map_err(|e| format!("create N{i}: {e:?}"))?;
                vm.close_file(f).unwrap();
            }
            let r = vm.open_file_in_dir(root, "N32", Mode::ReadWriteCreate);
            println!("create needing extension on full: {:?}", r.as_ref().map(|_| ()));
            img.check()?;
            let r = vm.make_dir_in_dir(root, "DD");
            println!("mkdir on full: {r:?}");
            img.check()?;
            vm.delete_file_in_dir(root, "N0").map_err(|e| format!("{e:?}"))?;
            img.check()?;
            if img.free_count() != 2 {
                return Err(format!("free {}", img.free_count()));
            }
            // slot of N0 is free again: mkdir needs just one cluster
            vm.make_dir_in_dir(root, "DD").map_err(|e| format!("mkdir {e:?}"))?;
            img.check()?;
            vm.close_dir(root).unwrap();
            vm.close_volume(v).unwrap();
            let (fc, nf) = img.fsinfo();
            println!("fsinfo {fc} {nf:#x} scan {}", img.free_count());
            if fc != img.free_count() {
                return Err(format!("fsinfo free {fc} vs {}", img.free_count()));
            }
            Ok(())
        })();
        report("F32 root ext", r, &mut fails);
    }
    // FAT16 root full (16 entries)
    {
        let count = 4200;
        let img = Img::mkfs(Geo::new(Ft::F16, count, 1, 2, 16));
        img.only_free(&[7, 8, 9, count + 1]);
        let (vm, _v, root) = mount(&img);
        let r = (|| -> Result<(), String> {
            for i in 0..16 {
                let f = vm
                    .open_file_in_dir(root, format!("N{i}").as_str(), Mode::ReadWriteCreate)
                    .map_err(|e| format!("create N{i}: {e:?}"))?;
                vm.close_file(f).unwrap();
            }
            let r = vm.open_file_in_dir(root, "N16", Mode::ReadWriteCreate);
            println!("F16 root full create: {:?}", r.as_ref().map(|_| ()));
            let r = vm.make_dir_in_dir(root, "DD");
            println!("F16 root full mkdir: {r:?} free {}", img.free_count());
            img.check()?;
            if img.free_count() != 4 {
                return Err(format!("free {}", img.free_count()));
            }
            Ok(())
        })();
        report("F16 root full", r, &mut fails);
    }
    assert!(fails.is_empty(), "{fails:?}");
}

#[test]
fn random2_fat16_big() {
    let mut fails = vec![];
    for count in [65524u32, 65523, 65518] {
        for (spc, nfats) in [(1u32, 2u32)] {
            for (fi, free) in small_free_sets(count).into_iter().enumerate() {
                for seed in 1..4u64 {
                    let img = Img::mkfs(Geo::new(Ft::F16, count, spc, nfats, 32));
                    img.only_free(&free);
                    if let Err(e) = run_history2(&img, seed + 100 * fi as u64, 120, 30) {
                        fails.push(format!("F16 count {count} spc {spc} nfats {nfats} free#{fi}: {e}"));
                    }
                }
            }
        }
    }
    for f in fails.iter().take(10) {
        println!("{f}\n");
    }
    assert!(fails.is_empty(), "{} failures", fails.len());
}

fn geo_extra(ft: Ft, count: u32, spc: u32, nfats: u32, root_entries: u32, extra_fat: u32, reserved: u32, tail: u32) -> Geo {
    let mut g = Geo::new(ft, count, spc, nfats, root_entries);
    g.fatsz += extra_fat;
    g.reserved = reserved;
    let root_blocks = g.root_blocks();
    // `tail` spare blocks at the end that do not make up a whole cluster
    g.total = g.reserved + g.nfats * g.fatsz + root_blocks + count * spc + tail;
    g
}

#[test]
fn random2_odd_geometry() {
    let mut fails = vec![];
    let cases = [
        (Ft::F16, 4350u32, 8u32, 2u32, 48u32, 3u32, 4u32, 7u32),
        (Ft::F16, 4352, 4, 2, 512, 1, 2, 3),
        (Ft::F16, 5000, 2, 1, 16, 0, 1, 1),
        (Ft::F32, 65662, 2, 2, 0, 5, 32, 1),
        (Ft::F32, 65536, 4, 2, 0, 1, 40, 3),
    ];
    for (ft, count, spc, nfats, re, xf, res, tail) in cases {
        for (fi, free) in small_free_sets(count).into_iter().enumerate() {
            for seed in 1..5u64 {
                let g = geo_extra(ft, count, spc, nfats, re, xf, res, tail);
                let img = Img::mkfs(g);
                img.only_free(&free);
                if let Err(e) = run_history2(&img, seed + 100 * fi as u64, 150, 40) {
                    fails.push(format!("{ft:?} count {count} spc {spc} nfats {nfats} free#{fi}: {e}"));
                }
            }
        }
    }
    for f in fails.iter().take(10) {
        println!("{f}\n");
    }
    assert!(fails.is_empty(), "{} failures", fails.len());
}
