//! C11 bug 1: a block-device error during `write()` is swallowed and replaced
//! by a fabricated `Error::DiskFull` / `Error::AllocationError`.
//!
//! Property C11: "A block-device error is always reported, never swallowed
//! ... If any block-device read or write fails during an API call, that call
//! returns an error - it never returns success, a fabricated answer ...".
//! Mechanism named by the property: "device errors mapped into
//! Error::DeviceError and propagated with ?".
//!
//! What happens: `VolumeManager::write` needs one more cluster for the file.
//! Every device failure inside `alloc_cluster` (FAT read while searching a free
//! cluster, either FAT write, the read for the free-cluster hint) is thrown away
//! by `.is_err()` and the caller is told `DiskFull` - on a volume with 3900 free
//! clusters. A device failure in the lookup right after the allocation is
//! turned into `AllocationError` ("cluster was not properly allocated by the
//! library") by `.map_err(|_| ...)`. The very same write succeeds when it is
//! simply repeated, so "disk full" was made up. (src/volume_mgr.rs:897-915)
//!
//! What should have happened: `Err(Error::DeviceError(_))` for every device
//! call index, as for all other calls of the API (and as the first-cluster
//! path of the same function does with `?`).
//!
//! Self-contained: builds its own FAT16 image in RAM; drop into `tests/`.

use embedded_sdmmc::{
    Block, BlockCount, BlockDevice, BlockIdx, Error, Mode, TimeSource, Timestamp, VolumeIdx,
    VolumeManager,
};
use std::cell::RefCell;
use std::rc::Rc;

struct Shared {
    data: Vec<u8>,
    calls: u64,
    fail_at: Option<u64>,
    fired: bool,
}

#[derive(Clone)]
struct Dev(Rc<RefCell<Shared>>);

#[derive(Debug, Clone)]
struct Injected;

impl BlockDevice for Dev {
    type Error = Injected;
    fn read(&self, blocks: &mut [Block], start: BlockIdx) -> Result<(), Injected> {
        let mut s = self.0.borrow_mut();
        let idx = s.calls;
        s.calls += 1;
        if s.fail_at == Some(idx) {
            s.fired = true;
            for b in blocks.iter_mut() {
                b.contents.fill(0); // a failed read leaves rubbish in the buffer
            }
            return Err(Injected);
        }
        for (i, b) in blocks.iter_mut().enumerate() {
            let o = (start.0 as usize + i) * 512;
            b.contents.copy_from_slice(&s.data[o..o + 512]);
        }
        Ok(())
    }
    fn write(&self, blocks: &[Block], start: BlockIdx) -> Result<(), Injected> {
        let mut s = self.0.borrow_mut();
        let idx = s.calls;
        s.calls += 1;
        if s.fail_at == Some(idx) {
            s.fired = true;
            return Err(Injected); // nothing reaches the medium
        }
        for (i, b) in blocks.iter().enumerate() {
            let o = (start.0 as usize + i) * 512;
            s.data[o..o + 512].copy_from_slice(&b.contents);
        }
        Ok(())
    }
    fn num_blocks(&self) -> Result<BlockCount, Injected> {
        Ok(BlockCount((self.0.borrow().data.len() / 512) as u32))
    }
}

struct Clock;
impl TimeSource for Clock {
    fn get_timestamp(&self) -> Timestamp {
        Timestamp {
            year_since_1970: 30,
            zero_indexed_month: 1,
            zero_indexed_day: 1,
            hours: 1,
            minutes: 1,
            seconds: 2,
        }
    }
}

const LBA: usize = 1;
const FATSZ: usize = 17;
const CLUSTERS: usize = 4200;
const FIRST_FREE: usize = 300;

/// MBR + one FAT16 partition: 1 block per cluster, 2 FATs, 16 root entries.
/// Root: A.TXT, 512 bytes, in cluster 2. Clusters 3..300 are in use, clusters
/// 300..4202 are free (so the volume is nowhere near full, and the first free
/// cluster lives in another FAT sector than the file's cluster).
fn image() -> Vec<u8> {
    let total = 1 + 2 * FATSZ + 1 + CLUSTERS;
    let mut d = vec![0u8; (LBA + total + 4) * 512];
    // MBR
    d[446 + 4] = 0x06;
    d[446 + 8..446 + 12].copy_from_slice(&(LBA as u32).to_le_bytes());
    d[446 + 12..446 + 16].copy_from_slice(&(total as u32).to_le_bytes());
    d[510] = 0x55;
    d[511] = 0xAA;
    // BPB
    let b = LBA * 512;
    d[b..b + 3].copy_from_slice(&[0xEB, 0x3C, 0x90]);
    d[b + 3..b + 11].copy_from_slice(b"HUNT 1.0");
    d[b + 11..b + 13].copy_from_slice(&512u16.to_le_bytes());
    d[b + 13] = 1;
    d[b + 14..b + 16].copy_from_slice(&1u16.to_le_bytes());
    d[b + 16] = 2;
    d[b + 17..b + 19].copy_from_slice(&16u16.to_le_bytes());
    d[b + 19..b + 21].copy_from_slice(&(total as u16).to_le_bytes());
    d[b + 21] = 0xF8;
    d[b + 22..b + 24].copy_from_slice(&(FATSZ as u16).to_le_bytes());
    d[b + 28..b + 32].copy_from_slice(&(LBA as u32).to_le_bytes());
    d[b + 38] = 0x29;
    d[b + 43..b + 54].copy_from_slice(b"BUG1       ");
    d[b + 54..b + 62].copy_from_slice(b"FAT16   ");
    d[b + 510] = 0x55;
    d[b + 511] = 0xAA;
    // FATs
    for f in 0..2 {
        let fb = (LBA + 1 + f * FATSZ) * 512;
        d[fb..fb + 2].copy_from_slice(&0xFFF8u16.to_le_bytes());
        for c in 1..FIRST_FREE {
            d[fb + c * 2..fb + c * 2 + 2].copy_from_slice(&0xFFFFu16.to_le_bytes());
        }
    }
    // root directory
    let rb = (LBA + 1 + 2 * FATSZ) * 512;
    d[rb..rb + 11].copy_from_slice(b"A       TXT");
    d[rb + 11] = 0x20;
    d[rb + 26..rb + 28].copy_from_slice(&2u16.to_le_bytes());
    d[rb + 28..rb + 32].copy_from_slice(&512u32.to_le_bytes());
    // data of cluster 2
    let db = (LBA + 1 + 2 * FATSZ + 1) * 512;
    for i in 0..512 {
        d[db + i] = (i % 251) as u8;
    }
    d
}

#[test]
fn device_error_while_extending_a_file_is_reported_as_device_error() {
    let mut wrong: Vec<String> = Vec::new();
    let mut j = 0u64;
    loop {
        let shared = Rc::new(RefCell::new(Shared {
            data: image(),
            calls: 0,
            fail_at: None,
            fired: false,
        }));
        let vm: VolumeManager<Dev, Clock, 4, 4, 1> =
            VolumeManager::new_with_limits(Dev(shared.clone()), Clock, 100);
        let vol = vm.open_raw_volume(VolumeIdx(0)).expect("open volume");
        let root = vm.open_root_dir(vol).expect("open root");
        let f = vm
            .open_file_in_dir(root, "A.TXT", Mode::ReadWriteAppend)
            .expect("open A.TXT");
        assert_eq!(vm.file_length(f).unwrap(), 512);

        // the j-th device call of this write() fails, once
        let c0 = shared.borrow().calls;
        shared.borrow_mut().fail_at = Some(c0 + j);
        let r = vm.write(f, &[0x5A; 100]);
        shared.borrow_mut().fail_at = None;
        if !shared.borrow().fired {
            // j is past the last device call of write(): every index has been tried
            assert!(r.is_ok());
            break;
        }
        match &r {
            Err(Error::DeviceError(_)) => {}
            other => {
                // the device is healthy again: the very same write goes through,
                // so there was room all along
                let retry = vm.write(f, &[0x5A; 100]);
                wrong.push(format!(
                    "device call #{} of write() failed -> write() returned {:?} (retry on the healthy device: {:?})",
                    j, other, retry
                ));
            }
        }
        j += 1;
        assert!(j < 100, "write() never finished");
    }
    assert!(j > 5, "the sweep did not cover the allocation ({} device calls)", j);
    assert!(
        wrong.is_empty(),
        "a block-device error was swallowed and replaced by a made-up answer \
         (expected Err(DeviceError(_)) every time; the volume has 3900 free clusters):\n  {}",
        wrong.join("\n  ")
    );
}
