//! C01 bug 2: embedded_io::Seek::seek(SeekFrom::End(i64::MIN)) on a `File`
//! panics ("attempt to negate with overflow") instead of refusing the seek.
//!
//! Clause violated (PROPERTY C01): "For any sequence of open, seek, read,
//! write, flush and close calls ... the reported length, offset and
//! end-of-file flag always equal the model's", quantified over "all ... seek
//! targets"; the mechanism named for it is "bounds-checked seeks". In the
//! byte-array model `SeekFrom::End(i64::MIN)` is simply a target before the
//! start of the file: the call fails with `InvalidOffset` and the offset stays
//! put (this is what every other out-of-range value does, e.g.
//! `SeekFrom::End(i64::MIN + 1)`, `SeekFrom::Current(i64::MIN)`). Instead the
//! call aborts the caller in any build with overflow checks (all debug/test
//! builds); nothing can be observed after it.
//!
//! Root cause: src/filesystem/files.rs:236 computes `(-offset)` on the raw
//! `i64` before the range conversion; `-i64::MIN` overflows.
//!
//! What should have happened: `Err(Error::InvalidOffset)`, offset unchanged.

use embedded_sdmmc::{
    Block, BlockCount, BlockDevice, BlockIdx, Mode, TimeSource, Timestamp, VolumeIdx,
    VolumeManager,
};
use std::cell::RefCell;
use std::collections::HashMap;

/// A sparse in-memory block device: blocks that were never written read as zeroes.
struct Sparse {
    blocks: RefCell<HashMap<u32, [u8; 512]>>,
}

impl Sparse {
    fn new() -> Sparse {
        Sparse {
            blocks: RefCell::new(HashMap::new()),
        }
    }
    fn put(&self, idx: u32, off: usize, data: &[u8]) {
        let mut b = self.blocks.borrow_mut();
        let e = b.entry(idx).or_insert([0u8; 512]);
        e[off..off + data.len()].copy_from_slice(data);
    }
}

impl BlockDevice for &Sparse {
    type Error = ();
    fn read(&self, blocks: &mut [Block], start: BlockIdx) -> Result<(), ()> {
        for (i, b) in blocks.iter_mut().enumerate() {
            b.contents = *self
                .blocks
                .borrow()
                .get(&(start.0 + i as u32))
                .unwrap_or(&[0u8; 512]);
        }
        Ok(())
    }
    fn write(&self, blocks: &[Block], start: BlockIdx) -> Result<(), ()> {
        for (i, b) in blocks.iter().enumerate() {
            self.blocks
                .borrow_mut()
                .insert(start.0 + i as u32, b.contents);
        }
        Ok(())
    }
    fn num_blocks(&self) -> Result<BlockCount, ()> {
        Ok(BlockCount(LBA + TOTAL))
    }
}

struct Clock;
impl TimeSource for Clock {
    fn get_timestamp(&self) -> Timestamp {
        Timestamp::from_calendar(2003, 4, 4, 13, 30, 4).unwrap()
    }
}

// An ordinary FAT32 volume in partition 0: two FATs, FSInfo in sector 1,
// root directory in cluster 2.
const LBA: u32 = 2048;
const RESERVED: u32 = 32;
const FAT_SIZE: u32 = ((CLUSTERS + 2) * 4 + 511) / 512;
const DATA_START: u32 = RESERVED + 2 * FAT_SIZE;
const TOTAL: u32 = DATA_START + CLUSTERS * SPC;

fn set_fat(dev: &Sparse, fat: u32, cluster: u32, value: u32) {
    let off = cluster * 4;
    dev.put(
        LBA + RESERVED + fat * FAT_SIZE + off / 512,
        (off % 512) as usize,
        &value.to_le_bytes(),
    );
}

/// Format the volume; `ext_flags` goes to BPB_ExtFlags (0 = both FATs mirrored).
fn mkfs(dev: &Sparse, ext_flags: u16) {
    let mut mbr = [0u8; 16];
    mbr[4] = 0x0C;
    mbr[8..12].copy_from_slice(&LBA.to_le_bytes());
    mbr[12..16].copy_from_slice(&TOTAL.to_le_bytes());
    dev.put(0, 446, &mbr);
    dev.put(0, 510, &[0x55, 0xAA]);
    let mut b = [0u8; 512];
    b[0..3].copy_from_slice(&[0xEB, 0x58, 0x90]);
    b[3..11].copy_from_slice(b"MSDOS5.0");
    b[11..13].copy_from_slice(&512u16.to_le_bytes());
    b[13] = SPC as u8;
    b[14..16].copy_from_slice(&(RESERVED as u16).to_le_bytes());
    b[16] = 2;
    b[21] = 0xF8;
    b[28..32].copy_from_slice(&LBA.to_le_bytes());
    b[32..36].copy_from_slice(&TOTAL.to_le_bytes());
    b[36..40].copy_from_slice(&FAT_SIZE.to_le_bytes());
    b[40..42].copy_from_slice(&ext_flags.to_le_bytes());
    b[44..48].copy_from_slice(&2u32.to_le_bytes());
    b[48..50].copy_from_slice(&1u16.to_le_bytes());
    b[50..52].copy_from_slice(&6u16.to_le_bytes());
    b[66] = 0x29;
    b[71..82].copy_from_slice(b"NO NAME    ");
    b[82..90].copy_from_slice(b"FAT32   ");
    b[510] = 0x55;
    b[511] = 0xAA;
    dev.put(LBA, 0, &b);
    let mut i = [0u8; 512];
    i[0..4].copy_from_slice(&0x4161_5252u32.to_le_bytes());
    i[484..488].copy_from_slice(&0x6141_7272u32.to_le_bytes());
    i[488..492].copy_from_slice(&0xFFFF_FFFFu32.to_le_bytes());
    i[492..496].copy_from_slice(&0xFFFF_FFFFu32.to_le_bytes());
    i[508..512].copy_from_slice(&0xAA55_0000u32.to_le_bytes());
    dev.put(LBA + 1, 0, &i);
    for fat in 0..2 {
        set_fat(dev, fat, 0, 0x0FFF_FFF8);
        set_fat(dev, fat, 1, 0x0FFF_FFFF);
        set_fat(dev, fat, 2, 0x0FFF_FFFF); // root directory: one cluster
    }
}

/// Put a plain file entry into slot 0 of the root directory.
fn put_root_entry(dev: &Sparse, name: &[u8; 11], cluster: u32, size: u32) {
    let mut e = [0u8; 32];
    e[0..11].copy_from_slice(name);
    e[11] = 0x20;
    e[20..22].copy_from_slice(&((cluster >> 16) as u16).to_le_bytes());
    e[26..28].copy_from_slice(&(cluster as u16).to_le_bytes());
    e[28..32].copy_from_slice(&size.to_le_bytes());
    dev.put(LBA + DATA_START, 0, &e);
}

const SPC: u32 = 1;
const CLUSTERS: u32 = 66000;

#[test]
fn seek_from_end_i64_min_is_refused_not_a_panic() {
    use embedded_io::{Seek, SeekFrom, Write};

    let dev = Sparse::new();
    mkfs(&dev, 0);
    let vm: VolumeManager<&Sparse, Clock, 4, 4, 1> = VolumeManager::new(&dev, Clock);
    let volume = vm.open_volume(VolumeIdx(0)).unwrap();
    let root = volume.open_root_dir().unwrap();
    let mut f = root
        .open_file_in_dir("A.DAT", Mode::ReadWriteCreate)
        .unwrap();
    f.write_all(b"0123456789").unwrap();
    assert_eq!(f.seek(SeekFrom::Start(4)).unwrap(), 4);

    // neighbours of the extreme value behave: refused, offset unchanged
    assert!(matches!(
        f.seek(SeekFrom::End(i64::MIN + 1)),
        Err(embedded_sdmmc::Error::InvalidOffset)
    ));
    assert!(matches!(
        f.seek(SeekFrom::Current(i64::MIN)),
        Err(embedded_sdmmc::Error::InvalidOffset)
    ));
    assert_eq!(f.offset(), 4);

    // the extreme value itself panics inside the library
    let r = f.seek(SeekFrom::End(i64::MIN));
    assert!(
        matches!(r, Err(embedded_sdmmc::Error::InvalidOffset)),
        "{:?}",
        r
    );
    assert_eq!(f.offset(), 4);
    assert_eq!(f.length(), 10);
}
