//! C01 bug 3 (geometry corner, lower severity): the FAT32 "active FAT"
//! selection in BPB_ExtFlags is ignored - cluster chains are always read from
//! FAT #0, even when the boot sector says that mirroring is off and FAT #1 is
//! the one in use.
//!
//! Clause violated (PROPERTY C01): "every read returns exactly the bytes that
//! a plain in-memory byte-array model of each file holds at the current
//! offset", quantified over "all FAT16/FAT32 geometries (... 1 or 2 FATs ...)".
//! On a FAT32 volume with two FATs, BPB_ExtFlags bit 7 set means "only one FAT
//! is active" and bits 0-3 give its number (Microsoft FAT specification,
//! BPB_ExtFlags). The inactive copy is allowed to be stale. Here the file
//! A.DAT is clusters 3 -> 5 in the active FAT #1, while the inactive FAT #0
//! still holds an older 3 -> 4 chain; cluster 4 belongs to somebody else.
//! The library returns the contents of cluster 4 as the second half of A.DAT.
//! (Writes have the mirror-image problem: new links are decided from FAT #0.)
//!
//! Root cause: src/fat/volume.rs:290-354 (`next_cluster`) and :1042-1118
//! (`find_next_free_cluster`) always address `self.fat_start`, the first FAT;
//! src/fat/bpb.rs has no accessor for the field at offset 40 at all and
//! `parse_volume` (src/fat/volume.rs:1478-1517) never looks at it.
//!
//! What should have happened: the second 512 bytes of A.DAT are the 'b' block
//! in cluster 5 (or, at the very least, the volume is refused at mount time as
//! unsupported rather than served from the wrong table).

use embedded_sdmmc::{
    Block, BlockCount, BlockDevice, BlockIdx, Mode, TimeSource, Timestamp, VolumeIdx,
    VolumeManager,
};
use std::cell::RefCell;
use std::collections::HashMap;

/// A sparse in-memory block device: blocks that were never written read as zeroes.
struct Sparse {
    blocks: RefCell<HashMap<u32, [u8; 512]>>,
}

impl Sparse {
    fn new() -> Sparse {
        Sparse {
            blocks: RefCell::new(HashMap::new()),
        }
    }
    fn put(&self, idx: u32, off: usize, data: &[u8]) {
        let mut b = self.blocks.borrow_mut();
        let e = b.entry(idx).or_insert([0u8; 512]);
        e[off..off + data.len()].copy_from_slice(data);
    }
}

impl BlockDevice for &Sparse {
    type Error = ();
    fn read(&self, blocks: &mut [Block], start: BlockIdx) -> Result<(), ()> {
        for (i, b) in blocks.iter_mut().enumerate() {
            b.contents = *self
                .blocks
                .borrow()
                .get(&(start.0 + i as u32))
                .unwrap_or(&[0u8; 512]);
        }
        Ok(())
    }
    fn write(&self, blocks: &[Block], start: BlockIdx) -> Result<(), ()> {
        for (i, b) in blocks.iter().enumerate() {
            self.blocks
                .borrow_mut()
                .insert(start.0 + i as u32, b.contents);
        }
        Ok(())
    }
    fn num_blocks(&self) -> Result<BlockCount, ()> {
        Ok(BlockCount(LBA + TOTAL))
    }
}

struct Clock;
impl TimeSource for Clock {
    fn get_timestamp(&self) -> Timestamp {
        Timestamp::from_calendar(2003, 4, 4, 13, 30, 4).unwrap()
    }
}

// An ordinary FAT32 volume in partition 0: two FATs, FSInfo in sector 1,
// root directory in cluster 2.
const LBA: u32 = 2048;
const RESERVED: u32 = 32;
const FAT_SIZE: u32 = ((CLUSTERS + 2) * 4 + 511) / 512;
const DATA_START: u32 = RESERVED + 2 * FAT_SIZE;
const TOTAL: u32 = DATA_START + CLUSTERS * SPC;

fn set_fat(dev: &Sparse, fat: u32, cluster: u32, value: u32) {
    let off = cluster * 4;
    dev.put(
        LBA + RESERVED + fat * FAT_SIZE + off / 512,
        (off % 512) as usize,
        &value.to_le_bytes(),
    );
}

/// Format the volume; `ext_flags` goes to BPB_ExtFlags (0 = both FATs mirrored).
fn mkfs(dev: &Sparse, ext_flags: u16) {
    let mut mbr = [0u8; 16];
    mbr[4] = 0x0C;
    mbr[8..12].copy_from_slice(&LBA.to_le_bytes());
    mbr[12..16].copy_from_slice(&TOTAL.to_le_bytes());
    dev.put(0, 446, &mbr);
    dev.put(0, 510, &[0x55, 0xAA]);
    let mut b = [0u8; 512];
    b[0..3].copy_from_slice(&[0xEB, 0x58, 0x90]);
    b[3..11].copy_from_slice(b"MSDOS5.0");
    b[11..13].copy_from_slice(&512u16.to_le_bytes());
    b[13] = SPC as u8;
    b[14..16].copy_from_slice(&(RESERVED as u16).to_le_bytes());
    b[16] = 2;
    b[21] = 0xF8;
    b[28..32].copy_from_slice(&LBA.to_le_bytes());
    b[32..36].copy_from_slice(&TOTAL.to_le_bytes());
    b[36..40].copy_from_slice(&FAT_SIZE.to_le_bytes());
    b[40..42].copy_from_slice(&ext_flags.to_le_bytes());
    b[44..48].copy_from_slice(&2u32.to_le_bytes());
    b[48..50].copy_from_slice(&1u16.to_le_bytes());
    b[50..52].copy_from_slice(&6u16.to_le_bytes());
    b[66] = 0x29;
    b[71..82].copy_from_slice(b"NO NAME    ");
    b[82..90].copy_from_slice(b"FAT32   ");
    b[510] = 0x55;
    b[511] = 0xAA;
    dev.put(LBA, 0, &b);
    let mut i = [0u8; 512];
    i[0..4].copy_from_slice(&0x4161_5252u32.to_le_bytes());
    i[484..488].copy_from_slice(&0x6141_7272u32.to_le_bytes());
    i[488..492].copy_from_slice(&0xFFFF_FFFFu32.to_le_bytes());
    i[492..496].copy_from_slice(&0xFFFF_FFFFu32.to_le_bytes());
    i[508..512].copy_from_slice(&0xAA55_0000u32.to_le_bytes());
    dev.put(LBA + 1, 0, &i);
    for fat in 0..2 {
        set_fat(dev, fat, 0, 0x0FFF_FFF8);
        set_fat(dev, fat, 1, 0x0FFF_FFFF);
        set_fat(dev, fat, 2, 0x0FFF_FFFF); // root directory: one cluster
    }
}

/// Put a plain file entry into slot 0 of the root directory.
fn put_root_entry(dev: &Sparse, name: &[u8; 11], cluster: u32, size: u32) {
    let mut e = [0u8; 32];
    e[0..11].copy_from_slice(name);
    e[11] = 0x20;
    e[20..22].copy_from_slice(&((cluster >> 16) as u16).to_le_bytes());
    e[26..28].copy_from_slice(&(cluster as u16).to_le_bytes());
    e[28..32].copy_from_slice(&size.to_le_bytes());
    dev.put(LBA + DATA_START, 0, &e);
}

const SPC: u32 = 1;
const CLUSTERS: u32 = 66000;

#[test]
fn chain_is_read_from_the_active_fat() {
    let dev = Sparse::new();
    // mirroring disabled (bit 7), active FAT = 1 (bits 0-3)
    mkfs(&dev, 0x0081);
    // active FAT #1: A.DAT = 3 -> 5 -> end; cluster 4 = another one-cluster file
    set_fat(&dev, 1, 3, 5);
    set_fat(&dev, 1, 4, 0x0FFF_FFFF);
    set_fat(&dev, 1, 5, 0x0FFF_FFFF);
    // inactive FAT #0 was not kept up to date: 3 -> 4 -> end
    set_fat(&dev, 0, 3, 4);
    set_fat(&dev, 0, 4, 0x0FFF_FFFF);
    put_root_entry(&dev, b"A       DAT", 3, 1024);
    dev.put(LBA + DATA_START + 1, 0, &[b'a'; 512]); // cluster 3
    dev.put(LBA + DATA_START + 2, 0, &[b'x'; 512]); // cluster 4 (not ours)
    dev.put(LBA + DATA_START + 3, 0, &[b'b'; 512]); // cluster 5

    let vm: VolumeManager<&Sparse, Clock, 4, 4, 1> = VolumeManager::new(&dev, Clock);
    let volume = vm.open_volume(VolumeIdx(0)).unwrap();
    let root = volume.open_root_dir().unwrap();
    let f = root.open_file_in_dir("A.DAT", Mode::ReadOnly).unwrap();
    let mut buf = vec![0u8; 1024];
    let mut got = 0;
    while got < buf.len() {
        let n = f.read(&mut buf[got..]).unwrap();
        if n == 0 {
            break;
        }
        got += n;
    }
    assert_eq!(got, 1024);
    assert!(buf[..512].iter().all(|b| *b == b'a'));
    assert!(
        buf[512..].iter().all(|b| *b == b'b'),
        "bytes 512.. of A.DAT are {:?}..., taken from the chain in the inactive FAT #0",
        &buf[512..516]
    );
}
