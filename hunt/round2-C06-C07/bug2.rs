//! C06 - `Directory::change_dir` cannot open a listed sub-directory when the
//! directory table has no spare slot, although it needs none.
//!
//! Statement (C06): "Lookup by name and opening a sub-directory succeed exactly
//! for names that the listing contains, including dot and dot-dot, and lead to
//! the directory the entry designates."
//!
//! `change_dir` re-targets ONE handle: the `Directory` gives up the directory
//! it has open and continues with the named one, so the number of open
//! directories is the same before and after. The implementation
//! (src/filesystem/directory.rs, `change_dir`) nevertheless first opens the
//! target as an additional directory (`VolumeManager::open_dir`, which answers
//! `TooManyOpenDirs` when all `MAX_DIRS` slots are taken) and only then closes
//! the old handle. So
//!   * with `MAX_DIRS = 1` - a perfectly good configuration for "walk down a
//!     path with one handle", which is what `change_dir` is for - `change_dir`
//!     can never succeed, for no name at all ("SUB", "..", "." - all refused);
//!   * with any `MAX_DIRS`, it fails as soon as the table is full, i.e. exactly
//!     when re-using the handle instead of opening another one matters.
//! The listing contains SUB (a directory), lookup finds it, but the directory
//! cannot be entered.
//!
//! What should have happened: `change_dir("SUB")` succeeds and the handle then
//! lists SUB (its '.', '..' and INSIDE.TXT); `change_dir("..")` leads back.
//!
//! Both tests FAIL on the unmodified library (Err(TooManyOpenDirs)).

use embedded_sdmmc::{
    Block, BlockCount, BlockDevice, BlockIdx, Error, TimeSource, Timestamp, VolumeIdx,
    VolumeManager,
};
use std::cell::RefCell;
use std::rc::Rc;

// ------------------------------------------------------------------ device
struct Inner {
    data: Vec<u8>,
    writes: Vec<u32>,
}
#[derive(Clone)]
struct Disk(Rc<RefCell<Inner>>);
#[derive(Debug)]
struct DevErr;
impl BlockDevice for Disk {
    type Error = DevErr;
    fn read(&self, blocks: &mut [Block], start: BlockIdx) -> Result<(), DevErr> {
        let inner = self.0.borrow();
        for (i, b) in blocks.iter_mut().enumerate() {
            let o = (start.0 as usize + i) * 512;
            if o + 512 > inner.data.len() {
                return Err(DevErr);
            }
            b.contents.copy_from_slice(&inner.data[o..o + 512]);
        }
        Ok(())
    }
    fn write(&self, blocks: &[Block], start: BlockIdx) -> Result<(), DevErr> {
        let mut inner = self.0.borrow_mut();
        for (i, b) in blocks.iter().enumerate() {
            let o = (start.0 as usize + i) * 512;
            if o + 512 > inner.data.len() {
                return Err(DevErr);
            }
            inner.data[o..o + 512].copy_from_slice(&b.contents);
            inner.writes.push(start.0 + i as u32);
        }
        Ok(())
    }
    fn num_blocks(&self) -> Result<BlockCount, DevErr> {
        Ok(BlockCount((self.0.borrow().data.len() / 512) as u32))
    }
}
struct Clock;
impl TimeSource for Clock {
    fn get_timestamp(&self) -> Timestamp {
        Timestamp::from_calendar(2003, 4, 4, 13, 30, 4).unwrap()
    }
}

// ------------------------------------------------------------------ a FAT16 formatter
const LBA: u32 = 1; // partition start
const RESERVED: u32 = 1;
const CLUSTERS: u32 = 4200; // >= 4085: FAT16; one block per cluster
const FAT_SIZE: u32 = ((CLUSTERS + 2) * 2 + 511) / 512;

struct Img {
    disk: Disk,
    root_entries: u32,
}
impl Img {
    fn root_blocks(&self) -> u32 {
        (self.root_entries * 32 + 511) / 512
    }
    fn root_block(&self) -> u32 {
        LBA + RESERVED + 2 * FAT_SIZE
    }
    fn cluster_block(&self, c: u32) -> u32 {
        self.root_block() + self.root_blocks() + (c - 2)
    }
    fn poke(&self, block: u32, off: usize, bytes: &[u8]) {
        let mut inner = self.disk.0.borrow_mut();
        let o = block as usize * 512 + off;
        inner.data[o..o + bytes.len()].copy_from_slice(bytes);
    }
    fn set_fat(&self, cluster: u32, value: u16) {
        for copy in 0..2 {
            let b = LBA + RESERVED + copy * FAT_SIZE + (cluster * 2) / 512;
            self.poke(b, ((cluster * 2) % 512) as usize, &value.to_le_bytes());
        }
    }
    fn new(root_entries: u32) -> Img {
        let root_blocks = (root_entries * 32 + 511) / 512;
        let total = RESERVED + 2 * FAT_SIZE + root_blocks + CLUSTERS;
        let disk = Disk(Rc::new(RefCell::new(Inner {
            data: vec![0u8; ((LBA + total) * 512) as usize],
            writes: vec![],
        })));
        let img = Img { disk, root_entries };
        // MBR: one FAT16 partition
        let mut mbr = [0u8; 512];
        mbr[446 + 4] = 0x06;
        mbr[446 + 8..446 + 12].copy_from_slice(&LBA.to_le_bytes());
        mbr[446 + 12..446 + 16].copy_from_slice(&total.to_le_bytes());
        mbr[510] = 0x55;
        mbr[511] = 0xAA;
        img.poke(0, 0, &mbr);
        // boot sector
        let mut b = [0u8; 512];
        b[0..3].copy_from_slice(&[0xEB, 0x3C, 0x90]);
        b[3..11].copy_from_slice(b"HUNTFMT ");
        b[11..13].copy_from_slice(&512u16.to_le_bytes());
        b[13] = 1; // blocks per cluster
        b[14..16].copy_from_slice(&(RESERVED as u16).to_le_bytes());
        b[16] = 2; // FAT copies
        b[17..19].copy_from_slice(&(root_entries as u16).to_le_bytes());
        b[19..21].copy_from_slice(&(total as u16).to_le_bytes());
        b[21] = 0xF8;
        b[22..24].copy_from_slice(&(FAT_SIZE as u16).to_le_bytes());
        b[43..54].copy_from_slice(b"HUNT16     ");
        b[510] = 0x55;
        b[511] = 0xAA;
        img.poke(LBA, 0, &b);
        img.set_fat(0, 0xFFF8);
        img.set_fat(1, 0xFFFF);
        img
    }
}
fn slot(name: &[u8; 11], attr: u8, cluster: u16) -> [u8; 32] {
    let mut s = [0u8; 32];
    s[0..11].copy_from_slice(name);
    s[11] = attr;
    s[16..18].copy_from_slice(&0x2E84u16.to_le_bytes()); // 2003-04-04
    s[24..26].copy_from_slice(&0x2E84u16.to_le_bytes());
    s[26..28].copy_from_slice(&cluster.to_le_bytes());
    s
}
fn numbered(i: u8) -> [u8; 11] {
    let mut n = *b"FILE00  TXT";
    n[4] = b'0' + i / 10;
    n[5] = b'0' + i % 10;
    n
}


fn image() -> Img {
    let img = Img::new(32);
    img.set_fat(10, 0xFFFF);
    img.poke(img.root_block(), 0, &slot(b"SUB        ", 0x10, 10));
    img.poke(img.root_block(), 32, &slot(b"ROOTFILETXT", 0x20, 0));
    let sub = img.cluster_block(10);
    img.poke(sub, 0, &slot(b".          ", 0x10, 10));
    img.poke(sub, 32, &slot(b"..         ", 0x10, 0));
    img.poke(sub, 64, &slot(b"INSIDE  TXT", 0x20, 0));
    img
}

/// One directory slot, one handle, walking down and up again.
#[test]
fn change_dir_with_a_single_directory_slot() {
    let img = image();
    let vm: VolumeManager<Disk, Clock, 1, 2, 1> =
        VolumeManager::new_with_limits(img.disk.clone(), Clock, 100);
    let vol = vm.open_volume(VolumeIdx(0)).unwrap();
    let mut dir = vol.open_root_dir().unwrap();

    // the listing contains SUB, and it is a directory
    let mut names = vec![];
    dir.iterate_dir(|e| names.push((e.name.to_string(), e.attributes.is_directory())))
        .unwrap();
    assert_eq!(
        names,
        vec![("SUB".to_string(), true), ("ROOTFILE.TXT".to_string(), false)]
    );
    assert!(dir.find_directory_entry("SUB").is_ok());

    let r = dir.change_dir("SUB");
    assert!(
        r.is_ok(),
        "change_dir(\"SUB\") with MAX_DIRS = 1 (one handle before, one handle after): {:?}",
        r
    );
    let mut names = vec![];
    dir.iterate_dir(|e| names.push(e.name.to_string())).unwrap();
    assert_eq!(names, vec![".", "..", "INSIDE.TXT"]);

    dir.change_dir("..").unwrap();
    let mut names = vec![];
    dir.iterate_dir(|e| names.push(e.name.to_string())).unwrap();
    assert_eq!(names, vec!["SUB", "ROOTFILE.TXT"]);
}

/// The default four slots, all in use.
#[test]
fn change_dir_with_a_full_directory_table() {
    let img = image();
    let vm: VolumeManager<Disk, Clock, 4, 4, 1> =
        VolumeManager::new_with_limits(img.disk.clone(), Clock, 100);
    let vol = vm.open_volume(VolumeIdx(0)).unwrap();
    let _a = vol.open_root_dir().unwrap();
    let _b = vol.open_root_dir().unwrap();
    let _c = vol.open_root_dir().unwrap();
    let mut dir = vol.open_root_dir().unwrap();
    // (a wrong name is still told apart: nothing wrong with the lookup itself)
    let r = dir.change_dir("SUB");
    assert!(
        !matches!(r, Err(Error::TooManyOpenDirs)),
        "change_dir opens no additional directory, yet: {:?}",
        r
    );
    r.unwrap();
    let mut names = vec![];
    dir.iterate_dir(|e| names.push(e.name.to_string())).unwrap();
    assert_eq!(names, vec![".", "..", "INSIDE.TXT"]);
}
