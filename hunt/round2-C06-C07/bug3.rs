//! C06 - in a sub-directory, `open_dir(dir, ".")` never looks at the '.' entry.
//!
//! Statement (C06): "Lookup by name and opening a sub-directory succeed exactly
//! for names that the listing contains, including dot and dot-dot, and lead to
//! the directory the entry designates."
//!
//! `VolumeManager::open_dir` (src/volume_mgr.rs:269-283) short-cuts the name "."
//! (and "", which converts to ".") for EVERY directory: it hands out a second
//! handle on the directory it was given without reading anything. The comment
//! says what the short-cut is for - "root dir doesn't have '.'" - but it is not
//! restricted to the root. In a sub-directory the '.' entry is an ordinary
//! listed entry (it is listed, `find_directory_entry(".")` returns it, and
//! ".." IS resolved through its entry), so listing/lookup and open_dir can
//! disagree:
//!   1. the '.' entry designates another directory (cluster 11, "OTHER"): the
//!      listing and the lookup report cluster 11, open_dir(".") leads to SUB;
//!   2. the directory has no '.' entry at all: the listing does not contain
//!      ".", the lookup answers NotFound - open_dir(".") succeeds;
//!   3. the '.' entry is a file: open_dir(".") succeeds where every other name
//!      gets OpenedFileAsDir.
//! (For ".." in the same three situations the library follows the entry /
//! answers NotFound / answers OpenedFileAsDir, as the statement demands.)
//!
//! What should have happened: outside the root directory "." is looked up like
//! any other name; only the root (which has no such entry) needs the short-cut.
//!
//! All three tests FAIL on the unmodified library. (Same code path on FAT32.)

use embedded_sdmmc::{
    Block, BlockCount, BlockDevice, BlockIdx, Error, RawDirectory, TimeSource, Timestamp,
    VolumeIdx, VolumeManager,
};
use std::cell::RefCell;
use std::rc::Rc;

// ------------------------------------------------------------------ device
struct Inner {
    data: Vec<u8>,
    writes: Vec<u32>,
}
#[derive(Clone)]
struct Disk(Rc<RefCell<Inner>>);
#[derive(Debug)]
struct DevErr;
impl BlockDevice for Disk {
    type Error = DevErr;
    fn read(&self, blocks: &mut [Block], start: BlockIdx) -> Result<(), DevErr> {
        let inner = self.0.borrow();
        for (i, b) in blocks.iter_mut().enumerate() {
            let o = (start.0 as usize + i) * 512;
            if o + 512 > inner.data.len() {
                return Err(DevErr);
            }
            b.contents.copy_from_slice(&inner.data[o..o + 512]);
        }
        Ok(())
    }
    fn write(&self, blocks: &[Block], start: BlockIdx) -> Result<(), DevErr> {
        let mut inner = self.0.borrow_mut();
        for (i, b) in blocks.iter().enumerate() {
            let o = (start.0 as usize + i) * 512;
            if o + 512 > inner.data.len() {
                return Err(DevErr);
            }
            inner.data[o..o + 512].copy_from_slice(&b.contents);
            inner.writes.push(start.0 + i as u32);
        }
        Ok(())
    }
    fn num_blocks(&self) -> Result<BlockCount, DevErr> {
        Ok(BlockCount((self.0.borrow().data.len() / 512) as u32))
    }
}
struct Clock;
impl TimeSource for Clock {
    fn get_timestamp(&self) -> Timestamp {
        Timestamp::from_calendar(2003, 4, 4, 13, 30, 4).unwrap()
    }
}

// ------------------------------------------------------------------ a FAT16 formatter
const LBA: u32 = 1; // partition start
const RESERVED: u32 = 1;
const CLUSTERS: u32 = 4200; // >= 4085: FAT16; one block per cluster
const FAT_SIZE: u32 = ((CLUSTERS + 2) * 2 + 511) / 512;

struct Img {
    disk: Disk,
    root_entries: u32,
}
impl Img {
    fn root_blocks(&self) -> u32 {
        (self.root_entries * 32 + 511) / 512
    }
    fn root_block(&self) -> u32 {
        LBA + RESERVED + 2 * FAT_SIZE
    }
    fn cluster_block(&self, c: u32) -> u32 {
        self.root_block() + self.root_blocks() + (c - 2)
    }
    fn poke(&self, block: u32, off: usize, bytes: &[u8]) {
        let mut inner = self.disk.0.borrow_mut();
        let o = block as usize * 512 + off;
        inner.data[o..o + bytes.len()].copy_from_slice(bytes);
    }
    fn set_fat(&self, cluster: u32, value: u16) {
        for copy in 0..2 {
            let b = LBA + RESERVED + copy * FAT_SIZE + (cluster * 2) / 512;
            self.poke(b, ((cluster * 2) % 512) as usize, &value.to_le_bytes());
        }
    }
    fn new(root_entries: u32) -> Img {
        let root_blocks = (root_entries * 32 + 511) / 512;
        let total = RESERVED + 2 * FAT_SIZE + root_blocks + CLUSTERS;
        let disk = Disk(Rc::new(RefCell::new(Inner {
            data: vec![0u8; ((LBA + total) * 512) as usize],
            writes: vec![],
        })));
        let img = Img { disk, root_entries };
        // MBR: one FAT16 partition
        let mut mbr = [0u8; 512];
        mbr[446 + 4] = 0x06;
        mbr[446 + 8..446 + 12].copy_from_slice(&LBA.to_le_bytes());
        mbr[446 + 12..446 + 16].copy_from_slice(&total.to_le_bytes());
        mbr[510] = 0x55;
        mbr[511] = 0xAA;
        img.poke(0, 0, &mbr);
        // boot sector
        let mut b = [0u8; 512];
        b[0..3].copy_from_slice(&[0xEB, 0x3C, 0x90]);
        b[3..11].copy_from_slice(b"HUNTFMT ");
        b[11..13].copy_from_slice(&512u16.to_le_bytes());
        b[13] = 1; // blocks per cluster
        b[14..16].copy_from_slice(&(RESERVED as u16).to_le_bytes());
        b[16] = 2; // FAT copies
        b[17..19].copy_from_slice(&(root_entries as u16).to_le_bytes());
        b[19..21].copy_from_slice(&(total as u16).to_le_bytes());
        b[21] = 0xF8;
        b[22..24].copy_from_slice(&(FAT_SIZE as u16).to_le_bytes());
        b[43..54].copy_from_slice(b"HUNT16     ");
        b[510] = 0x55;
        b[511] = 0xAA;
        img.poke(LBA, 0, &b);
        img.set_fat(0, 0xFFF8);
        img.set_fat(1, 0xFFFF);
        img
    }
}
fn slot(name: &[u8; 11], attr: u8, cluster: u16) -> [u8; 32] {
    let mut s = [0u8; 32];
    s[0..11].copy_from_slice(name);
    s[11] = attr;
    s[16..18].copy_from_slice(&0x2E84u16.to_le_bytes()); // 2003-04-04
    s[24..26].copy_from_slice(&0x2E84u16.to_le_bytes());
    s[26..28].copy_from_slice(&cluster.to_le_bytes());
    s
}
type Vm = VolumeManager<Disk, Clock, 4, 4, 1>;

fn names(vm: &Vm, d: RawDirectory) -> Vec<String> {
    let mut v = vec![];
    vm.iterate_dir(d, |e| v.push(e.name.to_string())).unwrap();
    v
}

/// root: SUB (cluster 10), OTHER (cluster 11); SUB's first two slots are given
fn image(first: [u8; 32], second: [u8; 32]) -> Img {
    let img = Img::new(32);
    img.set_fat(10, 0xFFFF);
    img.set_fat(11, 0xFFFF);
    img.poke(img.root_block(), 0, &slot(b"SUB        ", 0x10, 10));
    img.poke(img.root_block(), 32, &slot(b"OTHER      ", 0x10, 11));
    let sub = img.cluster_block(10);
    img.poke(sub, 0, &first);
    img.poke(sub, 32, &second);
    img.poke(sub, 64, &slot(b"INSUB   TXT", 0x20, 0));
    let other = img.cluster_block(11);
    img.poke(other, 0, &slot(b".          ", 0x10, 11));
    img.poke(other, 32, &slot(b"..         ", 0x10, 0));
    img.poke(other, 64, &slot(b"INOTHER TXT", 0x20, 0));
    img
}

#[test]
fn dot_entry_designating_another_directory() {
    let img = image(slot(b".          ", 0x10, 11), slot(b"..         ", 0x10, 0));
    let vm: Vm = VolumeManager::new_with_limits(img.disk.clone(), Clock, 100);
    let vol = vm.open_raw_volume(VolumeIdx(0)).unwrap();
    let root = vm.open_root_dir(vol).unwrap();
    let sub = vm.open_dir(root, "SUB").unwrap();
    let other = vm.open_dir(root, "OTHER").unwrap();
    // listing and lookup agree: '.' is there and designates OTHER's cluster
    assert_eq!(names(&vm, sub), vec![".", "..", "INSUB.TXT"]);
    let dot = vm.find_directory_entry(sub, ".").unwrap();
    let other_in_root = vm.find_directory_entry(root, "OTHER").unwrap();
    assert!(dot.attributes.is_directory());
    assert_eq!(dot.cluster, other_in_root.cluster);
    // so opening it leads there
    let opened = vm.open_dir(sub, ".").unwrap();
    assert_eq!(
        names(&vm, opened),
        names(&vm, other),
        "open_dir(SUB, \".\") did not lead to the directory the '.' entry designates"
    );
}

#[test]
fn directory_without_a_dot_entry() {
    // SUB starts with '..' and a file; there is no '.'
    let img = image(slot(b"..         ", 0x10, 0), slot(b"FILLER  TXT", 0x20, 0));
    let vm: Vm = VolumeManager::new_with_limits(img.disk.clone(), Clock, 100);
    let vol = vm.open_raw_volume(VolumeIdx(0)).unwrap();
    let root = vm.open_root_dir(vol).unwrap();
    let sub = vm.open_dir(root, "SUB").unwrap();
    assert_eq!(names(&vm, sub), vec!["..", "FILLER.TXT", "INSUB.TXT"]);
    assert!(matches!(vm.find_directory_entry(sub, "."), Err(Error::NotFound)));
    let r = vm.open_dir(sub, ".");
    assert!(
        matches!(r, Err(Error::NotFound)),
        "'.' is neither listed nor found, yet open_dir(SUB, \".\") = {:?}",
        r
    );
}

#[test]
fn dot_entry_that_is_a_file() {
    let img = image(slot(b".          ", 0x20, 0), slot(b"..         ", 0x10, 0));
    let vm: Vm = VolumeManager::new_with_limits(img.disk.clone(), Clock, 100);
    let vol = vm.open_raw_volume(VolumeIdx(0)).unwrap();
    let root = vm.open_root_dir(vol).unwrap();
    let sub = vm.open_dir(root, "SUB").unwrap();
    let dot = vm.find_directory_entry(sub, ".").unwrap();
    assert!(!dot.attributes.is_directory());
    let r = vm.open_dir(sub, ".");
    assert!(
        matches!(r, Err(Error::OpenedFileAsDir)),
        "the '.' entry is a file, yet open_dir(SUB, \".\") = {:?}",
        r
    );
}
