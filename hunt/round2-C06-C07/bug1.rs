//! C07 - a refused `make_dir_in_dir` writes to the medium.
//!
//! Statement (C07): "... a refused call changes nothing on the medium."
//!
//! `make_dir_in_dir` on a directory that has no room for one more entry (a
//! full FAT16 root directory; or a full sub-directory on a volume with a single
//! free cluster, so that the directory cannot grow) is refused with
//! `NotEnoughSpace` - correctly - but only AFTER the library has
//!   * marked a cluster as allocated in both FAT copies,
//!   * written the '.' and '..' entries of the would-be directory into it,
//!   * and then freed the cluster again in both FAT copies.
//! The write log of the device shows 5 block writes for the refused call, and
//! the medium is different afterwards: the (free) cluster now holds the
//! '.'/'..' entries of a directory that was never made. Between the first and
//! the last of these writes the volume holds an allocated cluster that nothing
//! refers to (a power cut there leaks it).
//!
//! What should have happened: the call finds out that the parent has no slot
//! (and cannot get one) before it touches the medium, as `open_file_in_dir`
//! with a creating mode does in the very same situation (0 writes - checked
//! below as the control).
//!
//! Both tests FAIL on the unmodified library.

use embedded_sdmmc::{
    Block, BlockCount, BlockDevice, BlockIdx, Error, Mode, TimeSource, Timestamp, VolumeIdx,
    VolumeManager,
};
use std::cell::RefCell;
use std::rc::Rc;

// ------------------------------------------------------------------ device
struct Inner {
    data: Vec<u8>,
    writes: Vec<u32>,
}
#[derive(Clone)]
struct Disk(Rc<RefCell<Inner>>);
#[derive(Debug)]
struct DevErr;
impl BlockDevice for Disk {
    type Error = DevErr;
    fn read(&self, blocks: &mut [Block], start: BlockIdx) -> Result<(), DevErr> {
        let inner = self.0.borrow();
        for (i, b) in blocks.iter_mut().enumerate() {
            let o = (start.0 as usize + i) * 512;
            if o + 512 > inner.data.len() {
                return Err(DevErr);
            }
            b.contents.copy_from_slice(&inner.data[o..o + 512]);
        }
        Ok(())
    }
    fn write(&self, blocks: &[Block], start: BlockIdx) -> Result<(), DevErr> {
        let mut inner = self.0.borrow_mut();
        for (i, b) in blocks.iter().enumerate() {
            let o = (start.0 as usize + i) * 512;
            if o + 512 > inner.data.len() {
                return Err(DevErr);
            }
            inner.data[o..o + 512].copy_from_slice(&b.contents);
            inner.writes.push(start.0 + i as u32);
        }
        Ok(())
    }
    fn num_blocks(&self) -> Result<BlockCount, DevErr> {
        Ok(BlockCount((self.0.borrow().data.len() / 512) as u32))
    }
}
struct Clock;
impl TimeSource for Clock {
    fn get_timestamp(&self) -> Timestamp {
        Timestamp::from_calendar(2003, 4, 4, 13, 30, 4).unwrap()
    }
}

// ------------------------------------------------------------------ a FAT16 formatter
const LBA: u32 = 1; // partition start
const RESERVED: u32 = 1;
const CLUSTERS: u32 = 4200; // >= 4085: FAT16; one block per cluster
const FAT_SIZE: u32 = ((CLUSTERS + 2) * 2 + 511) / 512;

struct Img {
    disk: Disk,
    root_entries: u32,
}
impl Img {
    fn root_blocks(&self) -> u32 {
        (self.root_entries * 32 + 511) / 512
    }
    fn root_block(&self) -> u32 {
        LBA + RESERVED + 2 * FAT_SIZE
    }
    fn cluster_block(&self, c: u32) -> u32 {
        self.root_block() + self.root_blocks() + (c - 2)
    }
    fn poke(&self, block: u32, off: usize, bytes: &[u8]) {
        let mut inner = self.disk.0.borrow_mut();
        let o = block as usize * 512 + off;
        inner.data[o..o + bytes.len()].copy_from_slice(bytes);
    }
    fn set_fat(&self, cluster: u32, value: u16) {
        for copy in 0..2 {
            let b = LBA + RESERVED + copy * FAT_SIZE + (cluster * 2) / 512;
            self.poke(b, ((cluster * 2) % 512) as usize, &value.to_le_bytes());
        }
    }
    fn new(root_entries: u32) -> Img {
        let root_blocks = (root_entries * 32 + 511) / 512;
        let total = RESERVED + 2 * FAT_SIZE + root_blocks + CLUSTERS;
        let disk = Disk(Rc::new(RefCell::new(Inner {
            data: vec![0u8; ((LBA + total) * 512) as usize],
            writes: vec![],
        })));
        let img = Img { disk, root_entries };
        // MBR: one FAT16 partition
        let mut mbr = [0u8; 512];
        mbr[446 + 4] = 0x06;
        mbr[446 + 8..446 + 12].copy_from_slice(&LBA.to_le_bytes());
        mbr[446 + 12..446 + 16].copy_from_slice(&total.to_le_bytes());
        mbr[510] = 0x55;
        mbr[511] = 0xAA;
        img.poke(0, 0, &mbr);
        // boot sector
        let mut b = [0u8; 512];
        b[0..3].copy_from_slice(&[0xEB, 0x3C, 0x90]);
        b[3..11].copy_from_slice(b"HUNTFMT ");
        b[11..13].copy_from_slice(&512u16.to_le_bytes());
        b[13] = 1; // blocks per cluster
        b[14..16].copy_from_slice(&(RESERVED as u16).to_le_bytes());
        b[16] = 2; // FAT copies
        b[17..19].copy_from_slice(&(root_entries as u16).to_le_bytes());
        b[19..21].copy_from_slice(&(total as u16).to_le_bytes());
        b[21] = 0xF8;
        b[22..24].copy_from_slice(&(FAT_SIZE as u16).to_le_bytes());
        b[43..54].copy_from_slice(b"HUNT16     ");
        b[510] = 0x55;
        b[511] = 0xAA;
        img.poke(LBA, 0, &b);
        img.set_fat(0, 0xFFF8);
        img.set_fat(1, 0xFFFF);
        img
    }
}
fn slot(name: &[u8; 11], attr: u8, cluster: u16) -> [u8; 32] {
    let mut s = [0u8; 32];
    s[0..11].copy_from_slice(name);
    s[11] = attr;
    s[16..18].copy_from_slice(&0x2E84u16.to_le_bytes()); // 2003-04-04
    s[24..26].copy_from_slice(&0x2E84u16.to_le_bytes());
    s[26..28].copy_from_slice(&cluster.to_le_bytes());
    s
}
fn numbered(i: u8) -> [u8; 11] {
    let mut n = *b"FILE00  TXT";
    n[4] = b'0' + i / 10;
    n[5] = b'0' + i % 10;
    n
}

type Vm = VolumeManager<Disk, Clock, 4, 4, 1>;

/// A FAT16 root directory of 16 entries, all 16 in use.
#[test]
fn refused_mkdir_in_full_fat16_root_writes_nothing() {
    let img = Img::new(16);
    for i in 0..16u8 {
        img.poke(img.root_block(), i as usize * 32, &slot(&numbered(i), 0x20, 0));
    }
    let vm: Vm = VolumeManager::new_with_limits(img.disk.clone(), Clock, 100);
    let vol = vm.open_raw_volume(VolumeIdx(0)).unwrap();
    let root = vm.open_root_dir(vol).unwrap();

    // control: creating a FILE in the full root is refused without a single write
    img.disk.0.borrow_mut().writes.clear();
    let r = vm.open_file_in_dir(root, "NEWFILE", Mode::ReadWriteCreate);
    assert!(matches!(r, Err(Error::NotEnoughSpace)), "{:?}", r);
    assert!(img.disk.0.borrow().writes.is_empty());

    let before = img.disk.0.borrow().data.clone();
    img.disk.0.borrow_mut().writes.clear();
    let r = vm.make_dir_in_dir(root, "NEWDIR");
    assert!(matches!(r, Err(Error::NotEnoughSpace)), "{:?}", r);

    let writes = img.disk.0.borrow().writes.clone();
    let changed: Vec<usize> = (0..before.len() / 512)
        .filter(|b| before[b * 512..b * 512 + 512] != img.disk.0.borrow().data[b * 512..b * 512 + 512])
        .collect();
    assert!(
        writes.is_empty() && changed.is_empty(),
        "the refused make_dir_in_dir wrote blocks {:?}; blocks that differ afterwards: {:?} \
         (block {} is the first data cluster - free before and after, now holding '.' and '..')",
        writes,
        changed,
        img.cluster_block(2)
    );
}

/// A full sub-directory (one cluster, 16 slots in use) on a volume with exactly
/// one free cluster: the new directory would need that cluster AND the parent
/// would need one to grow.
#[test]
fn refused_mkdir_in_full_subdir_with_one_free_cluster_writes_nothing() {
    let img = Img::new(32);
    // every cluster is taken ...
    for c in 2..CLUSTERS + 2 {
        img.set_fat(c, 0xFFFF);
    }
    // ... except number 500
    img.set_fat(500, 0);
    // SUB lives in cluster 10 and is full
    img.poke(img.root_block(), 0, &slot(b"SUB        ", 0x10, 10));
    let sub = img.cluster_block(10);
    img.poke(sub, 0, &slot(b".          ", 0x10, 10));
    img.poke(sub, 32, &slot(b"..         ", 0x10, 0));
    for i in 2..16u8 {
        img.poke(sub, i as usize * 32, &slot(&numbered(i), 0x20, 0));
    }
    let vm: Vm = VolumeManager::new_with_limits(img.disk.clone(), Clock, 100);
    let vol = vm.open_raw_volume(VolumeIdx(0)).unwrap();
    let root = vm.open_root_dir(vol).unwrap();
    let subdir = vm.open_dir(root, "SUB").unwrap();

    let before = img.disk.0.borrow().data.clone();
    img.disk.0.borrow_mut().writes.clear();
    let r = vm.make_dir_in_dir(subdir, "NEWDIR");
    assert!(matches!(r, Err(Error::NotEnoughSpace)), "{:?}", r);

    let writes = img.disk.0.borrow().writes.clone();
    let changed: Vec<usize> = (0..before.len() / 512)
        .filter(|b| before[b * 512..b * 512 + 512] != img.disk.0.borrow().data[b * 512..b * 512 + 512])
        .collect();
    assert!(
        writes.is_empty() && changed.is_empty(),
        "the refused make_dir_in_dir wrote blocks {:?}; blocks that differ afterwards: {:?} \
         (block {} is free cluster 500)",
        writes,
        changed,
        img.cluster_block(500)
    );
}
