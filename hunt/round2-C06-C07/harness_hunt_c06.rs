//! C06 hunting harness: crafted raw directories vs own reader.
#![allow(dead_code)]

use embedded_sdmmc::filesystem::ToShortFileName;
use embedded_sdmmc::*;
use std::cell::RefCell;
use std::collections::HashMap;
use std::rc::Rc;

// ---------------------------------------------------------------- device
#[derive(Default)]
pub struct DiskInner {
    pub blocks: HashMap<u32, [u8; 512]>,
    pub nblocks: u32,
    pub writes: Vec<u32>,
}
#[derive(Clone)]
pub struct Disk(pub Rc<RefCell<DiskInner>>);
impl Disk {
    pub fn new(nblocks: u32) -> Disk {
        Disk(Rc::new(RefCell::new(DiskInner {
            blocks: HashMap::new(),
            nblocks,
            writes: vec![],
        })))
    }
    pub fn get(&self, b: u32) -> [u8; 512] {
        self.0.borrow().blocks.get(&b).copied().unwrap_or([0u8; 512])
    }
    pub fn put(&self, b: u32, d: [u8; 512]) {
        self.0.borrow_mut().blocks.insert(b, d);
    }
    pub fn patch(&self, b: u32, off: usize, bytes: &[u8]) {
        let mut blk = self.get(b);
        blk[off..off + bytes.len()].copy_from_slice(bytes);
        self.put(b, blk);
    }
}
#[derive(Debug)]
pub struct DevErr;
impl BlockDevice for Disk {
    type Error = DevErr;
    fn read(&self, blocks: &mut [Block], start: BlockIdx) -> Result<(), DevErr> {
        let inner = self.0.borrow();
        for (i, b) in blocks.iter_mut().enumerate() {
            let idx = start.0 + i as u32;
            if idx >= inner.nblocks {
                return Err(DevErr);
            }
            b.contents = inner.blocks.get(&idx).copied().unwrap_or([0u8; 512]);
        }
        Ok(())
    }
    fn write(&self, blocks: &[Block], start: BlockIdx) -> Result<(), DevErr> {
        let mut inner = self.0.borrow_mut();
        for (i, b) in blocks.iter().enumerate() {
            let idx = start.0 + i as u32;
            if idx >= inner.nblocks {
                return Err(DevErr);
            }
            inner.blocks.insert(idx, b.contents);
            inner.writes.push(idx);
        }
        Ok(())
    }
    fn num_blocks(&self) -> Result<BlockCount, DevErr> {
        Ok(BlockCount(self.0.borrow().nblocks))
    }
}

pub struct Clock;
impl TimeSource for Clock {
    fn get_timestamp(&self) -> Timestamp {
        Timestamp {
            year_since_1970: 33,
            zero_indexed_month: 3,
            zero_indexed_day: 3,
            hours: 13,
            minutes: 30,
            seconds: 4,
        }
    }
}

// ---------------------------------------------------------------- rng
pub struct Rng(pub u64);
impl Rng {
    pub fn next(&mut self) -> u64 {
        self.0 ^= self.0 << 13;
        self.0 ^= self.0 >> 7;
        self.0 ^= self.0 << 17;
        self.0
    }
    pub fn below(&mut self, n: u64) -> u64 {
        self.next() % n
    }
    pub fn chance(&mut self, pct: u64) -> bool {
        self.below(100) < pct
    }
}

// ---------------------------------------------------------------- formatter
#[derive(Clone, Copy, PartialEq, Debug)]
pub enum Ft {
    F16,
    F32,
}
pub struct Img {
    pub disk: Disk,
    pub ft: Ft,
    pub lba: u32,
    pub spc: u32,
    pub reserved: u32,
    pub fat_size: u32,
    pub root_entries: u32,
    pub root_blocks: u32,
    pub clusters: u32,
    pub root_cluster: u32,
    pub first_data: u32, // absolute
    pub fat: Vec<u32>,
}
impl Img {
    pub fn new(ft: Ft, spc: u32, root_entries: u32, root_cluster: u32, lba: u32) -> Img {
        let clusters: u32 = match ft {
            Ft::F16 => 4200,
            Ft::F32 => 65600,
        };
        let esz = if ft == Ft::F16 { 2 } else { 4 };
        let fat_size = ((clusters + 2) * esz + 511) / 512;
        let reserved = if ft == Ft::F16 { 3 } else { 32 };
        let root_entries = if ft == Ft::F16 { root_entries } else { 0 };
        let root_blocks = (root_entries * 32 + 511) / 512;
        let total = reserved + 2 * fat_size + root_blocks + clusters * spc;
        let disk = Disk::new(lba + total + 8);
        // MBR
        let mut mbr = [0u8; 512];
        mbr[446 + 4] = if ft == Ft::F16 { 0x06 } else { 0x0C };
        mbr[446 + 8..446 + 12].copy_from_slice(&lba.to_le_bytes());
        mbr[446 + 12..446 + 16].copy_from_slice(&total.to_le_bytes());
        mbr[510] = 0x55;
        mbr[511] = 0xAA;
        disk.put(0, mbr);
        let mut b = [0u8; 512];
        b[0] = 0xEB;
        b[1] = 0x3C;
        b[2] = 0x90;
        b[3..11].copy_from_slice(b"HUNTFMT ");
        b[11..13].copy_from_slice(&512u16.to_le_bytes());
        b[13] = spc as u8;
        b[14..16].copy_from_slice(&(reserved as u16).to_le_bytes());
        b[16] = 2;
        b[17..19].copy_from_slice(&(root_entries as u16).to_le_bytes());
        if total < 65536 {
            b[19..21].copy_from_slice(&(total as u16).to_le_bytes());
        } else {
            b[32..36].copy_from_slice(&total.to_le_bytes());
        }
        b[21] = 0xF8;
        if ft == Ft::F16 {
            b[22..24].copy_from_slice(&(fat_size as u16).to_le_bytes());
            b[43..54].copy_from_slice(b"HUNT16     ");
        } else {
            b[36..40].copy_from_slice(&fat_size.to_le_bytes());
            b[44..48].copy_from_slice(&root_cluster.to_le_bytes());
            b[48..50].copy_from_slice(&1u16.to_le_bytes());
            b[50..52].copy_from_slice(&6u16.to_le_bytes());
            b[71..82].copy_from_slice(b"HUNT32     ");
        }
        b[510] = 0x55;
        b[511] = 0xAA;
        disk.put(lba, b);
        if ft == Ft::F32 {
            let mut i = [0u8; 512];
            i[0..4].copy_from_slice(&0x4161_5252u32.to_le_bytes());
            i[484..488].copy_from_slice(&0x6141_7272u32.to_le_bytes());
            i[488..492].copy_from_slice(&0xFFFF_FFFFu32.to_le_bytes());
            i[492..496].copy_from_slice(&0xFFFF_FFFFu32.to_le_bytes());
            i[508..512].copy_from_slice(&0xAA55_0000u32.to_le_bytes());
            disk.put(lba + 1, i);
        }
        let mut fat = vec![0u32; (clusters + 2) as usize];
        fat[0] = 0x0FFF_FFF8;
        fat[1] = 0x0FFF_FFFF;
        let first_data = lba + reserved + 2 * fat_size + root_blocks;
        Img {
            disk,
            ft,
            lba,
            spc,
            reserved,
            fat_size,
            root_entries,
            root_blocks,
            clusters,
            root_cluster,
            first_data,
            fat,
        }
    }
    pub fn eoc(&self) -> u32 {
        if self.ft == Ft::F16 {
            0xFFFF
        } else {
            0x0FFF_FFFF
        }
    }
    /// write the in-memory FAT to both copies
    pub fn flush_fat(&self) {
        let esz = if self.ft == Ft::F16 { 2 } else { 4 };
        let per = 512 / esz;
        for blk in 0..self.fat_size {
            let mut d = [0u8; 512];
            let mut any = false;
            for i in 0..per {
                let c = (blk as usize) * per + i;
                if c < self.fat.len() {
                    let v = self.fat[c];
                    if v != 0 {
                        any = true;
                    }
                    if esz == 2 {
                        d[i * 2..i * 2 + 2].copy_from_slice(&(v as u16).to_le_bytes());
                    } else {
                        d[i * 4..i * 4 + 4].copy_from_slice(&v.to_le_bytes());
                    }
                }
            }
            if any || self.disk.0.borrow().blocks.contains_key(&(self.lba + self.reserved + blk)) {
                self.disk.put(self.lba + self.reserved + blk, d);
                self.disk.put(self.lba + self.reserved + self.fat_size + blk, d);
            }
        }
    }
    pub fn cluster_block(&self, c: u32) -> u32 {
        self.first_data + (c - 2) * self.spc
    }
    pub fn root_block(&self) -> u32 {
        self.lba + self.reserved + 2 * self.fat_size
    }
    pub fn slots_per_cluster(&self) -> usize {
        (self.spc * 16) as usize
    }
    /// Set the chain in the FAT
    pub fn link(&mut self, chain: &[u32]) {
        for w in chain.windows(2) {
            self.fat[w[0] as usize] = w[1];
        }
        let e = self.eoc();
        self.fat[*chain.last().unwrap() as usize] = e;
    }
    /// Write directory slots to a cluster chain (must fit exactly or be shorter: rest zero-filled)
    pub fn write_dir_chain(&self, chain: &[u32], slots: &[[u8; 32]]) {
        let spcl = self.slots_per_cluster();
        assert!(slots.len() <= chain.len() * spcl);
        for (ci, c) in chain.iter().enumerate() {
            for b in 0..self.spc {
                let mut d = [0u8; 512];
                for s in 0..16 {
                    let idx = ci * spcl + (b as usize) * 16 + s;
                    if idx < slots.len() {
                        d[s * 32..s * 32 + 32].copy_from_slice(&slots[idx]);
                    }
                }
                self.disk.put(self.cluster_block(*c) + b, d);
            }
        }
    }
    /// FAT16 root: slots and then `padding` for the rest of last block
    pub fn write_root16(&self, slots: &[[u8; 32]], padding: &[[u8; 32]]) {
        assert!(slots.len() <= self.root_entries as usize);
        let mut all: Vec<[u8; 32]> = slots.to_vec();
        while all.len() < self.root_entries as usize {
            all.push([0u8; 32]);
        }
        all.extend_from_slice(padding);
        for b in 0..self.root_blocks {
            let mut d = [0u8; 512];
            for s in 0..16 {
                let idx = (b as usize) * 16 + s;
                if idx < all.len() {
                    d[s * 32..s * 32 + 32].copy_from_slice(&all[idx]);
                }
            }
            self.disk.put(self.root_block() + b, d);
        }
    }
    /// position (abs block, offset) of slot `i` in a chain dir
    pub fn slot_pos_chain(&self, chain: &[u32], i: usize) -> (u32, u32) {
        let spcl = self.slots_per_cluster();
        let c = chain[i / spcl];
        let within = i % spcl;
        (self.cluster_block(c) + (within / 16) as u32, ((within % 16) * 32) as u32)
    }
    pub fn slot_pos_root16(&self, i: usize) -> (u32, u32) {
        (self.root_block() + (i / 16) as u32, ((i % 16) * 32) as u32)
    }
}

// ---------------------------------------------------------------- slots
pub fn mk_slot(name: &[u8; 11], attr: u8, cluster: u32, size: u32, rng: &mut Rng) -> [u8; 32] {
    let mut s = [0u8; 32];
    s[0..11].copy_from_slice(name);
    s[11] = attr;
    s[12] = rng.next() as u8;
    s[13] = rng.next() as u8;
    let ctime = rand_time(rng);
    let cdate = rand_date(rng);
    let mtime = rand_time(rng);
    let mdate = rand_date(rng);
    s[14..16].copy_from_slice(&ctime.to_le_bytes());
    s[16..18].copy_from_slice(&cdate.to_le_bytes());
    s[18..20].copy_from_slice(&rand_date(rng).to_le_bytes());
    s[20..22].copy_from_slice(&((cluster >> 16) as u16).to_le_bytes());
    s[22..24].copy_from_slice(&mtime.to_le_bytes());
    s[24..26].copy_from_slice(&mdate.to_le_bytes());
    s[26..28].copy_from_slice(&(cluster as u16).to_le_bytes());
    s[28..32].copy_from_slice(&size.to_le_bytes());
    s
}
fn rand_time(rng: &mut Rng) -> u16 {
    let h = rng.below(24) as u16;
    let m = rng.below(60) as u16;
    let s = rng.below(30) as u16;
    (h << 11) | (m << 5) | s
}
fn rand_date(rng: &mut Rng) -> u16 {
    let y = rng.below(128) as u16;
    let m = 1 + rng.below(12) as u16;
    let d = 1 + rng.below(31) as u16;
    (y << 9) | (m << 5) | d
}
pub fn lfn_csum(name: &[u8; 11]) -> u8 {
    let mut r = 0u8;
    for b in name {
        r = r.rotate_right(1).wrapping_add(*b);
    }
    r
}
pub fn mk_lfn(seq: u8, csum: u8, chars: &[u16; 13], attr: u8) -> [u8; 32] {
    let mut s = [0u8; 32];
    s[0] = seq;
    s[11] = attr;
    s[13] = csum;
    let pos = [1, 3, 5, 7, 9, 14, 16, 18, 20, 22, 24, 28, 30];
    for (i, p) in pos.iter().enumerate() {
        s[*p..*p + 2].copy_from_slice(&chars[i].to_le_bytes());
    }
    s
}

// ---------------------------------------------------------------- reference reader
#[derive(Debug, Clone, PartialEq)]
pub struct RefEntry {
    pub name: [u8; 11],
    pub attr: u8,
    pub cluster: u32,
    pub size: u32,
    pub mtime: (u16, u16), // date, time
    pub ctime: (u16, u16),
    pub slot: usize,
}
pub fn ref_read(slots: &[[u8; 32]], ft: Ft) -> Vec<RefEntry> {
    let mut out = vec![];
    for (i, s) in slots.iter().enumerate() {
        if s[0] == 0 {
            break;
        }
        if s[0] == 0xE5 {
            continue;
        }
        if s[11] & 0x3F == 0x0F {
            continue;
        }
        let lo = u16::from_le_bytes([s[26], s[27]]) as u32;
        let hi = u16::from_le_bytes([s[20], s[21]]) as u32;
        let mut name = [0u8; 11];
        name.copy_from_slice(&s[0..11]);
        out.push(RefEntry {
            name,
            attr: s[11],
            cluster: if ft == Ft::F16 { lo } else { (hi << 16) | lo },
            size: u32::from_le_bytes([s[28], s[29], s[30], s[31]]),
            mtime: (u16::from_le_bytes([s[24], s[25]]), u16::from_le_bytes([s[22], s[23]])),
            ctime: (u16::from_le_bytes([s[16], s[17]]), u16::from_le_bytes([s[14], s[15]])),
            slot: i,
        });
    }
    out
}
pub fn ts(date: u16, time: u16) -> Timestamp {
    let month = ((date >> 5) & 15) as u8;
    let day = (date & 31) as u8;
    Timestamp {
        year_since_1970: ((date >> 9) + 10) as u8,
        zero_indexed_month: month.saturating_sub(1),
        zero_indexed_day: day.saturating_sub(1),
        hours: (time >> 11) as u8,
        minutes: ((time >> 5) & 63) as u8,
        seconds: ((time & 31) * 2) as u8,
    }
}
pub fn cl_str(c: u32, is_dir: bool) -> String {
    if c == 0 && is_dir {
        return "ClusterId(ROOT    )".to_string();
    }
    match c {
        0 => "ClusterId(EMPTY   )".to_string(),
        _ => format!("ClusterId({:08x})", c),
    }
}
pub fn name_bytes(n: &ShortFileName) -> [u8; 11] {
    // base_name()/extension() stop at spaces; use Debug-free way: compare via csum is lossy.
    // ShortFileName has no public accessor for raw contents; reconstruct from base/ext only if no inner space.
    // We use the unsafe-but-public to_volume_label + name() (trims trailing whitespace only).
    let v = unsafe { n.clone().to_volume_label() };
    let nm = v.name();
    let mut out = [b' '; 11];
    out[..nm.len()].copy_from_slice(nm);
    out
}

/// Compare a library DirEntry with a reference entry. Returns list of differences.
pub fn diff(de: &DirEntry, re: &RefEntry, pos: (u32, u32)) -> Vec<String> {
    let mut d = vec![];
    let nb = name_bytes(&de.name);
    // name().trim trailing ascii whitespace: 0x09..0x0D,0x20 also trimmed; tolerate only if equal after same trim
    let trim = |x: &[u8; 11]| {
        let mut v = x.to_vec();
        while let Some(l) = v.last() {
            if l.is_ascii_whitespace() {
                v.pop();
            } else {
                break;
            }
        }
        v
    };
    if trim(&nb) != trim(&re.name) {
        d.push(format!("name {:02x?} != {:02x?}", nb, re.name));
    }
    let a = de.attributes;
    let bits = (a.is_read_only() as u8)
        | (a.is_hidden() as u8) << 1
        | (a.is_system() as u8) << 2
        | (a.is_volume() as u8) << 3
        | (a.is_directory() as u8) << 4
        | (a.is_archive() as u8) << 5;
    if bits != re.attr & 0x3F {
        d.push(format!("attr {:02x} != {:02x}", bits, re.attr));
    }
    if de.size != re.size {
        d.push(format!("size {} != {}", de.size, re.size));
    }
    let cs = format!("{:?}", de.cluster);
    let want = cl_str(re.cluster, re.attr & 0x10 != 0);
    if cs != want {
        d.push(format!("cluster {} != {}", cs, want));
    }
    if de.mtime != ts(re.mtime.0, re.mtime.1) {
        d.push(format!("mtime {:?} != {:?}", de.mtime, ts(re.mtime.0, re.mtime.1)));
    }
    if de.ctime != ts(re.ctime.0, re.ctime.1) {
        d.push(format!("ctime {:?} != {:?}", de.ctime, ts(re.ctime.0, re.ctime.1)));
    }
    if (de.entry_block.0, de.entry_offset) != pos {
        d.push(format!("pos {:?} != {:?}", (de.entry_block.0, de.entry_offset), pos));
    }
    d
}

// ---------------------------------------------------------------- random directory generation
const NAME_POOL: &[&[u8; 11]] = &[
    b"FOO     TXT",
    b"BAR     TXT",
    b"A          ",
    b"README  MD ",
    b"readme  md ",
    b"MiXeD   CaS",
    b"\x05BC     TXT",
    b"A\xE5B     TXT",
    b"AB\x00D    TXT",
    b"A.B     TXT",
    b"A B     TXT",
    b" LEAD   TXT",
    b"\xC4\xD6\xDC     \xFF\x80\x81",
    b"SUB        ",
    b"SUB2       ",
    b"SELF       ",
    b"TOROOT     ",
    b".          ",
    b"..         ",
    b"...        ",
    b".A         ",
    b"12345678ABC",
    b"        TXT",
    b"\x7F\x01\x02\x03\x04\x06\x07\x08\x09\x0A\x0B",
    b"\x2E\x2E\x2E\x2E\x2E\x2E\x2E\x2E\x2E\x2E\x2E",
    b"\xE5\xE5\xE5\xE5\xE5\xE5\xE5\xE5\xE5\xE5\xE5", // only usable when first byte replaced
];

pub struct GenDir {
    pub slots: Vec<[u8; 32]>,
}

pub fn gen_slots(
    rng: &mut Rng,
    capacity: usize,
    end_at: Option<usize>,
    targets: &[u32],
    self_cluster: u32,
    root_cluster_val: u32,
) -> Vec<[u8; 32]> {
    let mut slots: Vec<[u8; 32]> = Vec::with_capacity(capacity);
    let mut i = 0;
    while i < capacity {
        if Some(i) == end_at {
            slots.push([0u8; 32]);
            i += 1;
            // after the end marker: stale stuff (must be invisible)
            while i < capacity {
                let mut s = gen_one(rng, targets, self_cluster, root_cluster_val);
                if rng.chance(20) {
                    s = [0u8; 32];
                }
                slots.push(s);
                i += 1;
            }
            break;
        }
        let r = rng.below(100);
        if r < 12 {
            // deleted slot (of any kind)
            let mut s = gen_one(rng, targets, self_cluster, root_cluster_val);
            if rng.chance(30) {
                s[11] = 0x0F;
            }
            s[0] = 0xE5;
            slots.push(s);
            i += 1;
        } else if r < 30 {
            // LFN run: valid, orphan, or wrong checksum
            let n = 1 + rng.below(4) as usize;
            let kind = rng.below(4);
            let short = NAME_POOL[rng.below(NAME_POOL.len() as u64 - 1) as usize];
            let mut short = *short;
            if short[0] == 0xE5 || short[0] == 0 {
                short[0] = b'X';
            }
            let csum = if kind == 1 {
                lfn_csum(&short).wrapping_add(1)
            } else {
                lfn_csum(&short)
            };
            for k in (1..=n).rev() {
                if i >= capacity || Some(i) == end_at {
                    break;
                }
                let mut chars = [0x0041u16; 13];
                // make first 11 bytes of the LFN slot look like a pool name sometimes
                for c in chars.iter_mut() {
                    *c = 0x41 + rng.below(26) as u16;
                }
                let seq = if k == n { 0x40 | k as u8 } else { k as u8 };
                let attr = match rng.below(6) {
                    0 => 0x4F,
                    1 => 0x8F,
                    2 => 0xCF,
                    _ => 0x0F,
                };
                slots.push(mk_lfn(seq, csum, &chars, attr));
                i += 1;
            }
            if kind != 2 && i < capacity && Some(i) != end_at {
                // the short entry
                let attr = rand_attr(rng);
                slots.push(mk_slot(&short, attr, rng.below(4000) as u32 + 2, rng.next() as u32, rng));
                i += 1;
            }
        } else {
            slots.push(gen_one(rng, targets, self_cluster, root_cluster_val));
            i += 1;
        }
    }
    slots.truncate(capacity);
    slots
}
fn rand_attr(rng: &mut Rng) -> u8 {
    loop {
        let a = match rng.below(4) {
            0 => rng.next() as u8,
            1 => 0x20,
            2 => 0x10,
            _ => [0x00, 0x01, 0x02, 0x04, 0x21, 0x11, 0x30, 0x1F, 0x2F, 0x3F, 0x40, 0x80, 0xC0, 0x50, 0x90][rng.below(15) as usize],
        };
        // volume labels are left alone; LFN generated separately
        if a & 0x08 != 0 {
            continue;
        }
        return a;
    }
}
fn gen_one(rng: &mut Rng, targets: &[u32], self_cluster: u32, root_cluster_val: u32) -> [u8; 32] {
    let mut name = *NAME_POOL[rng.below(NAME_POOL.len() as u64) as usize];
    if rng.chance(15) {
        for b in name.iter_mut() {
            *b = rng.next() as u8;
        }
    }
    if name[0] == 0 || name[0] == 0xE5 {
        name[0] = 0x05;
    }
    let mut attr = rand_attr(rng);
    if rng.chance(3) {
        // LFN-like attribute on a slot with a pool name in the first 11 bytes
        attr = 0x0F | ((rng.below(4) as u8) << 6);
    }
    let cluster = if attr & 0x10 != 0 && attr & 0x3F != 0x0F {
        match rng.below(6) {
            0 => 0,
            1 => self_cluster,
            2 => root_cluster_val,
            _ => targets[rng.below(targets.len() as u64) as usize],
        }
    } else {
        match rng.below(4) {
            0 => 0,
            1 => 0x0001_0000 | rng.below(0xFFF0) as u32,
            _ => 2 + rng.below(4000) as u32,
        }
    };
    let mut cluster = cluster;
    // avoid the magic ClusterId values in the debug comparison
    if cluster >= 0xFFFF_FFF0 {
        cluster = 5;
    }
    let size = if rng.chance(20) { 0 } else { rng.next() as u32 };
    mk_slot(&name, attr, cluster, size, rng)
}

fn pick_chain(rng: &mut Rng, used: &mut Vec<u32>, n: usize, max: u32) -> Vec<u32> {
    let mut chain = vec![];
    while chain.len() < n {
        let c = 2 + rng.below((max - 2) as u64) as u32;
        if !used.contains(&c) {
            used.push(c);
            chain.push(c);
        }
    }
    chain
}

type Vm = VolumeManager<Disk, Clock, 8, 4, 1>;

fn list(vm: &Vm, d: RawDirectory) -> Vec<DirEntry> {
    let mut v = vec![];
    vm.iterate_dir(d, |e| v.push(e.clone())).expect("iterate_dir");
    v
}
fn list_lfn(vm: &Vm, d: RawDirectory) -> Vec<DirEntry> {
    let mut v = vec![];
    let mut storage = [0u8; 1024];
    let mut buf = LfnBuffer::new(&mut storage);
    vm.iterate_dir_lfn(d, &mut buf, |e, _| v.push(e.clone()))
        .expect("iterate_dir_lfn");
    v
}

pub struct Problems(pub Vec<String>);

/// One scenario. Returns problems.
fn scenario(seed: u64, ft: Ft) -> Vec<String> {
    let mut probs = vec![];
    let mut rng = Rng(seed.wrapping_mul(0x9E3779B97F4A7C15) | 1);
    for _ in 0..5 {
        rng.next();
    }
    let spc = [1u32, 2, 4, 8, 16, 32, 64, 128][rng.below(8) as usize];
    let root_entries = [16u32, 32, 512, 17, 100, 1, 15, 33, 240][rng.below(9) as usize];
    let root_cluster = if rng.chance(50) { 2 } else { 2 + rng.below(3000) as u32 };
    let lba = [1u32, 63, 2048][rng.below(3) as usize];
    let mut img = Img::new(ft, spc, root_entries, root_cluster, lba);
    let max_cluster = 4000u32;
    let mut used = vec![];
    if ft == Ft::F32 {
        used.push(root_cluster);
    }
    // target dirs with markers
    let mut targets = vec![];
    let mut target_slots: HashMap<u32, Vec<[u8; 32]>> = HashMap::new();
    for t in 0..3 {
        let chain = pick_chain(&mut rng, &mut used, 1, max_cluster);
        img.link(&chain);
        let mut nm = *b"MARKER0    ";
        nm[6] = b'0' + t as u8;
        let slots = vec![
            mk_slot(b".          ", 0x10, chain[0], 0, &mut rng),
            mk_slot(b"..         ", 0x10, 0, 0, &mut rng),
            mk_slot(&nm, 0x20, 0, 0, &mut rng),
        ];
        img.write_dir_chain(&chain, &slots);
        targets.push(chain[0]);
        target_slots.insert(chain[0], slots);
    }
    // the directory under test: either root or a sub-directory
    let test_root = rng.chance(35);
    let spcl = img.slots_per_cluster();
    let (slots, chain, capacity): (Vec<[u8; 32]>, Vec<u32>, usize);
    let root_val_for_entries = if ft == Ft::F32 { root_cluster } else { 0 };
    let end_choice = |rng: &mut Rng, cap: usize| -> Option<usize> {
        match rng.below(6) {
            0 => None,
            1 => Some(0),
            2 => Some(cap - 1),
            3 => Some((cap / 16) * 16 / 2), // block boundary-ish
            _ => Some(rng.below(cap as u64) as usize),
        }
    };
    let mut padding: Vec<[u8; 32]> = vec![];
    if test_root && ft == Ft::F16 {
        capacity = root_entries as usize;
        let end = end_choice(&mut rng, capacity);
        slots = gen_slots(&mut rng, capacity, end, &targets, 0, 0);
        chain = vec![];
        // padding behind an odd-sized root: live-looking
        let pad = (img.root_blocks as usize) * 16 - capacity;
        for _ in 0..pad {
            padding.push(gen_one(&mut rng, &targets, 0, 0));
        }
        img.write_root16(&slots, &padding);
    } else {
        let n = 1 + rng.below(if spc >= 32 && std::env::var("HUNT_BIG").is_err() { 3 } else { 10 }) as usize;
        let mut ch = if test_root {
            // FAT32 root
            let mut c = vec![root_cluster];
            c.extend(pick_chain(&mut rng, &mut used, n - 1, max_cluster));
            c
        } else {
            pick_chain(&mut rng, &mut used, n, max_cluster)
        };
        // fragmentation: chain order is random already; sometimes reverse-sorted
        if rng.chance(30) && !test_root {
            ch.sort();
            ch.reverse();
        }
        img.link(&ch);
        capacity = n * spcl;
        let end = end_choice(&mut rng, capacity);
        slots = gen_slots(&mut rng, capacity, end, &targets, ch[0], root_val_for_entries);
        img.write_dir_chain(&ch, &slots);
        chain = ch;
    }
    // root (if not the dir under test) gets an entry for the dir under test
    let mut root_slots: Vec<[u8; 32]> = vec![];
    if !test_root {
        root_slots.push(mk_slot(b"UNDER      ", 0x10, chain[0], 0, &mut rng));
        for (t, c) in targets.iter().enumerate() {
            let mut nm = *b"TARGET0    ";
            nm[6] = b'0' + t as u8;
            root_slots.push(mk_slot(&nm, 0x10, *c, 0, &mut rng));
        }
        if ft == Ft::F16 {
            if root_slots.len() > root_entries as usize {
                // tiny root: can't hold; skip scenario
                return probs;
            }
            img.write_root16(&root_slots, &[]);
        } else {
            img.link(&[root_cluster]);
            img.write_dir_chain(&[root_cluster], &root_slots);
        }
    }
    img.flush_fat();

    let pos_of = |i: usize| -> (u32, u32) {
        if test_root && ft == Ft::F16 {
            img.slot_pos_root16(i)
        } else {
            img.slot_pos_chain(&chain, i)
        }
    };

    let vm: Vm = VolumeManager::new_with_limits(img.disk.clone(), Clock, 100);
    let vol = vm.open_raw_volume(VolumeIdx(0)).expect("open volume");
    let root = vm.open_root_dir(vol).expect("root");
    let dir = if test_root {
        root
    } else {
        match vm.open_dir(root, "UNDER") {
            Ok(d) => d,
            Err(e) => {
                probs.push(format!("open_dir UNDER failed: {:?}", e));
                return probs;
            }
        }
    };
    let refs = ref_read(&slots, ft);
    let tag = format!(
        "[seed {} {:?} spc {} rootent {} rootcl {} test_root {} chain {:?} cap {}]",
        seed, ft, spc, root_entries, root_cluster, test_root, chain, capacity
    );
    // 1. listing
    for (which, got) in [("iterate_dir", list(&vm, dir)), ("iterate_dir_lfn", list_lfn(&vm, dir))] {
        if got.len() != refs.len() {
            probs.push(format!("{} {}: {} entries, reference {}", tag, which, got.len(), refs.len()));
        }
        for (g, r) in got.iter().zip(refs.iter()) {
            let d = diff(g, r, pos_of(r.slot));
            if !d.is_empty() {
                probs.push(format!("{} {}: slot {}: {:?}", tag, which, r.slot, d));
                break;
            }
        }
    }
    let listing = list(&vm, dir);
    if listing.len() != refs.len() {
        return probs;
    }
    img.disk.0.borrow_mut().writes.clear();
    // 2. lookup by ShortFileName from the listing: first entry with that name
    for (k, g) in listing.iter().enumerate() {
        let first = refs.iter().position(|r| r.name == refs[k].name).unwrap();
        match vm.find_directory_entry(dir, &g.name) {
            Ok(found) => {
                let d = diff(&found, &refs[first], pos_of(refs[first].slot));
                if !d.is_empty() {
                    probs.push(format!("{} find {:02x?}: not the first match (want slot {}): {:?}", tag, refs[k].name, refs[first].slot, d));
                }
            }
            Err(e) => probs.push(format!("{} find {:02x?} (listed, slot {}): {:?}", tag, refs[k].name, refs[k].slot, e)),
        }
        // open_dir
        let fr = &refs[first];
        let r = vm.open_dir(dir, &g.name);
        let is_dot = fr.name == *b".          ";
        if fr.attr & 0x10 != 0 || is_dot {
            match r {
                Ok(h) => {
                    // where should it lead?
                    let want_cluster = if is_dot {
                        // shortcut: the directory itself
                        None
                    } else {
                        Some(fr.cluster)
                    };
                    let sub = list(&vm, h);
                    let want: Option<Vec<RefEntry>> = match want_cluster {
                        None => Some(refs.clone()),
                        Some(0) => {
                            if test_root {
                                Some(refs.clone())
                            } else {
                                Some(ref_read(&root_slots, ft))
                            }
                        }
                        Some(c) if !test_root && c == chain[0] => Some(refs.clone()),
                        Some(c) if ft == Ft::F32 && c == root_cluster => {
                            if test_root {
                                Some(refs.clone())
                            } else {
                                Some(ref_read(&root_slots, ft))
                            }
                        }
                        Some(c) => target_slots.get(&c).map(|s| ref_read(s, ft)),
                    };
                    if let Some(w) = want {
                        let gn: Vec<[u8; 11]> = sub.iter().map(|e| name_bytes(&e.name)).collect();
                        let wn: Vec<[u8; 11]> = w.iter().map(|e| e.name).collect();
                        if gn.len() != wn.len() {
                            probs.push(format!("{} open_dir {:02x?} -> cluster {:x}: listing len {} want {}", tag, fr.name, fr.cluster, gn.len(), wn.len()));
                        }
                    }
                    vm.close_dir(h).unwrap();
                }
                Err(e) => probs.push(format!("{} open_dir {:02x?} (dir, attr {:02x}): {:?}", tag, fr.name, fr.attr, e)),
            }
        } else {
            match r {
                Err(Error::OpenedFileAsDir) => {}
                Ok(h) => {
                    probs.push(format!("{} open_dir {:02x?} (file attr {:02x}) succeeded", tag, fr.name, fr.attr));
                    vm.close_dir(h).unwrap();
                }
                Err(e) => probs.push(format!("{} open_dir {:02x?} (file attr {:02x}): {:?}", tag, fr.name, fr.attr, e)),
            }
        }
    }
    // 3. lookup by &str of pool names
    for s in ["FOO.TXT", "foo.txt", "BAR.TXT", "A", "README.MD", "readme.md", "SUB", "SUB2", "SELF", "TOROOT", ".", "..", "12345678.ABC", "MIXED.CAS", "NOSUCH.XXX", "X", "XBC.TXT"] {
        let sfn = ShortFileName::create_from_str(s).unwrap();
        let want_bytes = name_bytes(&sfn);
        let first = refs.iter().find(|r| r.name == want_bytes);
        match (vm.find_directory_entry(dir, s), first) {
            (Ok(found), Some(fr)) => {
                let d = diff(&found, fr, pos_of(fr.slot));
                if !d.is_empty() {
                    probs.push(format!("{} find str {}: {:?}", tag, s, d));
                }
            }
            (Err(Error::NotFound), None) => {}
            (Ok(found), None) => probs.push(format!("{} find str {}: found unlisted {:?}", tag, s, found)),
            (Err(e), w) => probs.push(format!("{} find str {}: {:?}, want {:?}", tag, s, e, w.map(|x| x.slot))),
        }
        // open_dir by str for non-listed: must fail (except "." shortcut)
        if first.is_none() && s != "." {
            match vm.open_dir(dir, s) {
                Err(Error::NotFound) => {}
                Ok(h) => {
                    probs.push(format!("{} open_dir str {} unlisted succeeded", tag, s));
                    vm.close_dir(h).unwrap();
                }
                Err(e) => probs.push(format!("{} open_dir str {} unlisted: {:?}", tag, s, e)),
            }
        }
    }
    if !img.disk.0.borrow().writes.is_empty() {
        probs.push(format!("{} lookups wrote blocks {:?}", tag, img.disk.0.borrow().writes));
    }
    probs
}

#[test]
fn c06_random() {
    let n: u64 = std::env::var("HUNT_N").ok().and_then(|s| s.parse().ok()).unwrap_or(300);
    let start: u64 = std::env::var("HUNT_START").ok().and_then(|s| s.parse().ok()).unwrap_or(1);
    let mut total = 0;
    for seed in start..start + n {
        for ft in [Ft::F16, Ft::F32] {
            let r = std::panic::catch_unwind(|| scenario(seed, ft));
            match r {
                Ok(p) => {
                    for x in p.iter().take(5) {
                        println!("PROBLEM {}", x);
                    }
                    total += p.len();
                }
                Err(_) => {
                    println!("PANIC seed {} {:?}", seed, ft);
                    total += 1;
                }
            }
        }
    }
    assert_eq!(total, 0, "problems found");
}

// ======================================================================= C07 model harness
#[derive(Clone, Copy, PartialEq, Debug)]
enum DirStart {
    Root16,
    Chain(u32),
}
fn disk_fat_get(img: &Img, c: u32) -> u32 {
    let esz = if img.ft == Ft::F16 { 2 } else { 4 };
    let off = c * esz;
    let blk = img.disk.get(img.lba + img.reserved + off / 512);
    let o = (off % 512) as usize;
    if esz == 2 {
        u16::from_le_bytes([blk[o], blk[o + 1]]) as u32
    } else {
        u32::from_le_bytes([blk[o], blk[o + 1], blk[o + 2], blk[o + 3]]) & 0x0FFF_FFFF
    }
}
fn disk_chain(img: &Img, first: u32) -> Vec<u32> {
    let mut v = vec![];
    let mut c = first;
    let eoc_min = if img.ft == Ft::F16 { 0xFFF8 } else { 0x0FFF_FFF8 };
    while c >= 2 && c < eoc_min {
        v.push(c);
        assert!(v.len() < 100000);
        c = disk_fat_get(img, c);
    }
    v
}
/// all slots of a directory, in order, with their position
fn raw_dir(img: &Img, start: DirStart) -> Vec<([u8; 32], (u32, u32))> {
    let mut out = vec![];
    match start {
        DirStart::Root16 => {
            for i in 0..img.root_entries as usize {
                let (b, o) = img.slot_pos_root16(i);
                let blk = img.disk.get(b);
                let mut s = [0u8; 32];
                s.copy_from_slice(&blk[o as usize..o as usize + 32]);
                out.push((s, (b, o)));
            }
        }
        DirStart::Chain(first) => {
            for c in disk_chain(img, first) {
                for b in 0..img.spc {
                    let bi = img.cluster_block(c) + b;
                    let blk = img.disk.get(bi);
                    for s in 0..16 {
                        let mut x = [0u8; 32];
                        x.copy_from_slice(&blk[s * 32..s * 32 + 32]);
                        out.push((x, (bi, (s * 32) as u32)));
                    }
                }
            }
        }
    }
    out
}
fn raw_list(img: &Img, start: DirStart) -> Vec<(RefEntry, (u32, u32))> {
    let raw = raw_dir(img, start);
    let slots: Vec<[u8; 32]> = raw.iter().map(|x| x.0).collect();
    ref_read(&slots, img.ft).into_iter().map(|r| {
        let p = raw[r.slot].1;
        (r, p)
    }).collect()
}
fn err_name<E: std::fmt::Debug>(e: &Error<E>) -> String {
    let s = format!("{:?}", e);
    s.split('(').next().unwrap().to_string()
}

const MODES: [Mode; 6] = [
    Mode::ReadOnly,
    Mode::ReadWriteAppend,
    Mode::ReadWriteTruncate,
    Mode::ReadWriteCreate,
    Mode::ReadWriteCreateOrTruncate,
    Mode::ReadWriteCreateOrAppend,
];
const OP_NAMES: &[&str] = &[
    "FARC.TXT", "FNONE.TXT", "FRO.TXT", "FROARC.TXT", "FHID.TXT", "FSYS.TXT", "FWEIRD.TXT", "FEMPTY",
    "DPLAIN", "DRO", "DARC", "DHID", "SUB", "NEW1.TXT", "NEW2", "NEW3.A", "new1.txt", "farc.txt",
    ".", "..", "", "bad name", "a.b.c", "toolongname", "x.toolong", "a*b", ".x", "N4", "N5", "N6", "N7",
    "N8", "N9", "N10", "N11", "N12",
];

struct OpenF {
    raw: RawFile,
    pos: (u32, u32),
    mode: Mode,
    writable: bool,
}

fn c07_scenario(seed: u64, ft: Ft) -> Vec<String> {
    let mut probs: Vec<String> = vec![];
    let mut rng = Rng(seed.wrapping_mul(0x9E3779B97F4A7C15) | 1);
    for _ in 0..5 {
        rng.next();
    }
    let spc = [1u32, 1, 2, 4][rng.below(4) as usize];
    let root_entries = [16u32, 20, 32, 100, 200, 210][rng.below(6) as usize];
    let root_cluster = if rng.chance(50) { 2 } else { 2 + rng.below(50) as u32 };
    let mut img = Img::new(ft, spc, root_entries, root_cluster, 1);
    let next_free = std::cell::Cell::new(100u32);
    let alloc = |img: &mut Img, n: usize| -> Vec<u32> {
        let v: Vec<u32> = (0..n as u32).map(|i| next_free.get() + i * 2).collect(); // fragmented (every other)
        next_free.set(next_free.get() + (n as u32) * 2 + 1);
        img.link(&v);
        v
    };
    // populate a directory's slots
    let populate = |img: &mut Img, rng: &mut Rng, self_cluster: u32, parent: u32, is_root: bool, with_sub: Option<u32>| -> Vec<[u8; 32]> {
        let mut s = vec![];
        if !is_root {
            s.push(mk_slot(b".          ", 0x10, self_cluster, 0, rng));
            s.push(mk_slot(b"..         ", 0x10, parent, 0, rng));
        }
        let files: [(&[u8; 11], u8, u32); 8] = [
            (b"FARC    TXT", 0x20, 700),
            (b"FNONE   TXT", 0x00, 5),
            (b"FRO     TXT", 0x01, 1500),
            (b"FROARC  TXT", 0x21, 513),
            (b"FHID    TXT", 0x02, 512),
            (b"FSYS    TXT", 0x04, 1),
            (b"FWEIRD  TXT", 0x40, 1024),
            (b"FEMPTY     ", 0x20, 0),
        ];
        for (n, a, size) in files {
            if rng.chance(15) {
                // a deleted slot in between
                let mut d = mk_slot(b"GONE    TXT", 0x20, 0, 0, rng);
                d[0] = 0xE5;
                s.push(d);
            }
            let cl = if size == 0 {
                0
            } else {
                let ncl = ((size + spc * 512 - 1) / (spc * 512)) as usize;
                alloc(img, ncl)[0]
            };
            if rng.chance(60) {
                let nfrag = 1 + rng.below(20) as usize;
                let cs = if rng.chance(85) { lfn_csum(n) } else { 0x11 };
                for k in (1..=nfrag).rev() {
                    let seq = if k == nfrag { 0x40 | k as u8 } else { k as u8 };
                    let mut chars = [0u16; 13];
                    for c in chars.iter_mut() {
                        *c = 0x61 + rng.below(26) as u16;
                    }
                    s.push(mk_lfn(seq, cs, &chars, 0x0F));
                }
            }
            s.push(mk_slot(n, a, cl, size, rng));
        }
        for (n, a) in [(b"DPLAIN     ", 0x10u8), (b"DRO        ", 0x11), (b"DARC       ", 0x30), (b"DHID       ", 0x12)] {
            let c = alloc(img, 1)[0];
            let sub = vec![
                mk_slot(b".          ", 0x10, c, 0, rng),
                mk_slot(b"..         ", 0x10, if is_root { 0 } else { self_cluster }, 0, rng),
            ];
            img.write_dir_chain(&[c], &sub);
            s.push(mk_slot(n, a, c, 0, rng));
        }
        if let Some(c) = with_sub {
            s.push(mk_slot(b"SUB        ", 0x10, c, 0, rng));
        }
        s
    };
    let sub_chain = alloc(&mut img, 200 / (16 * spc as usize) + 1);
    let sub_slots = populate(&mut img, &mut rng, sub_chain[0], 0, false, None);
    assert!(sub_slots.len() <= sub_chain.len() * img.slots_per_cluster());
    img.write_dir_chain(&sub_chain, &sub_slots);
    let root_slots = populate(&mut img, &mut rng, 0, 0, true, Some(sub_chain[0]));
    let root_start;
    if ft == Ft::F16 {
        if root_slots.len() > root_entries as usize {
            return probs;
        }
        img.write_root16(&root_slots, &[]);
        root_start = DirStart::Root16;
    } else {
        let n = (root_slots.len() + img.slots_per_cluster() - 1) / img.slots_per_cluster();
        let mut ch = vec![root_cluster];
        if n > 1 {
            ch.extend(alloc(&mut img, n - 1));
        }
        img.link(&ch);
        img.write_dir_chain(&ch, &root_slots);
        root_start = DirStart::Chain(root_cluster);
    }
    img.flush_fat();
    let sub_start = DirStart::Chain(sub_chain[0]);

    let vm: Vm = VolumeManager::new_with_limits(img.disk.clone(), Clock, 100);
    let vol = vm.open_raw_volume(VolumeIdx(0)).expect("open volume");
    let h_root = vm.open_root_dir(vol).unwrap();
    let h_sub = vm.open_dir(h_root, "SUB").unwrap();
    let h_root2 = vm.open_dir(h_sub, "..").unwrap();
    let h_sub2 = vm.open_dir(h_sub, ".").unwrap();
    let h_sub3 = vm.open_dir(h_root2, "sub").unwrap();
    let dirs = [(h_root, root_start), (h_sub, sub_start), (h_root2, root_start), (h_sub2, sub_start), (h_sub3, sub_start)];
    let mut open: Vec<OpenF> = vec![];
    let tag = format!("[c07 seed {} {:?} spc {} rootent {} rootcl {}]", seed, ft, spc, root_entries, root_cluster);

    for step in 0..120 {
        let (dh, ds) = dirs[rng.below(dirs.len() as u64) as usize];
        let name = OP_NAMES[rng.below(OP_NAMES.len() as u64) as usize];
        let before = raw_list(&img, ds);
        let raw_before = raw_dir(&img, ds);
        let snapshot = img.disk.0.borrow().blocks.clone();
        img.disk.0.borrow_mut().writes.clear();
        let sfn = ShortFileName::create_from_str(name);
        let lookup = |n: &ShortFileName| -> Option<(RefEntry, (u32, u32))> {
            let nb = name_bytes(n);
            before.iter().find(|(r, _)| r.name == nb).cloned()
        };
        let dir_full = {
            let mut full = true;
            for (s, _) in raw_before.iter() {
                if s[0] == 0 || s[0] == 0xE5 {
                    full = false;
                }
            }
            full && ds == DirStart::Root16
        };
        let op = rng.below(100);
        let mut refused_expected = false;
        let mut desc = String::new();
        if op < 50 {
            let mode = MODES[rng.below(6) as usize];
            desc = format!("step {} open_file_in_dir({:?},{:?},{:?})", step, ds, name, mode);
            let creating = matches!(mode, Mode::ReadWriteCreate | Mode::ReadWriteCreateOrTruncate | Mode::ReadWriteCreateOrAppend);
            // prediction
            let expect: Result<(u32, u32, Option<(u32, u32)>), String> = if open.len() == 4 {
                Err("TooManyOpenFiles".into())
            } else {
                match &sfn {
                    Err(_) => Err("FilenameError".into()),
                    Ok(n) if name == "." || name == ".." || name.is_empty() => {
                        let _ = n;
                        Err("OpenedDirAsFile".into())
                    }
                    Ok(n) => match lookup(n) {
                        None => {
                            if creating {
                                if dir_full {
                                    Err("NotEnoughSpace".into())
                                } else {
                                    Ok((0, 0, None))
                                }
                            } else {
                                Err("NotFound".into())
                            }
                        }
                        Some((r, p)) => {
                            if open.iter().any(|o| o.pos == p) {
                                Err("FileAlreadyOpen".into())
                            } else if mode == Mode::ReadWriteCreate {
                                Err("FileAlreadyExists".into())
                            } else if r.attr & 0x10 != 0 {
                                if r.attr & 1 != 0 && mode != Mode::ReadOnly {
                                    Err("ReadOnly|OpenedDirAsFile".into())
                                } else {
                                    Err("OpenedDirAsFile".into())
                                }
                            } else if r.attr & 1 != 0 && mode != Mode::ReadOnly {
                                Err("ReadOnly".into())
                            } else {
                                match mode {
                                    Mode::ReadOnly => Ok((0, r.size, Some(p))),
                                    Mode::ReadWriteAppend | Mode::ReadWriteCreateOrAppend => Ok((r.size, r.size, Some(p))),
                                    _ => Ok((0, 0, Some(p))),
                                }
                            }
                        }
                    },
                }
            };
            let got = vm.open_file_in_dir(dh, name, mode);
            match (&got, &expect) {
                (Ok(f), Ok((off, len, p))) => {
                    let o = vm.file_offset(*f).unwrap();
                    let l = vm.file_length(*f).unwrap();
                    if (o, l) != (*off, *len) {
                        probs.push(format!("{} {}: offset/len {:?} want {:?}", tag, desc, (o, l), (off, len)));
                    }
                    // where is the entry now?
                    let after = raw_list(&img, ds);
                    let nb = name_bytes(sfn.as_ref().unwrap());
                    let e = after.iter().find(|(r, _)| r.name == nb);
                    match e {
                        None => probs.push(format!("{} {}: opened but no entry on disk", tag, desc)),
                        Some((r, pp)) => {
                            if let Some(p) = p {
                                if pp != p {
                                    probs.push(format!("{} {}: entry moved", tag, desc));
                                }
                            }
                            if r.size != *len {
                                probs.push(format!("{} {}: on-disk size {} want {}", tag, desc, r.size, len));
                            }
                            if r.attr & 0x10 != 0 {
                                probs.push(format!("{} {}: opened a directory", tag, desc));
                            }
                            open.push(OpenF { raw: *f, pos: *pp, mode, writable: mode != Mode::ReadOnly });
                        }
                    }
                    if mode == Mode::ReadOnly || matches!(mode, Mode::ReadWriteAppend) || (mode == Mode::ReadWriteCreateOrAppend && p.is_some()) {
                        if !img.disk.0.borrow().writes.is_empty() {
                            probs.push(format!("{} {}: non-modifying open wrote {:?}", tag, desc, img.disk.0.borrow().writes));
                        }
                    }
                }
                (Err(e), Err(want)) => {
                    refused_expected = true;
                    let en = err_name(e);
                    if !want.split('|').any(|w| w == en) {
                        probs.push(format!("{} {}: got {} want {}", tag, desc, en, want));
                    }
                }
                (Ok(f), Err(want)) => {
                    probs.push(format!("{} {}: succeeded, want {}", tag, desc, want));
                    let _ = vm.close_file(*f);
                }
                (Err(e), Ok(_)) => {
                    probs.push(format!("{} {}: got {:?}, want success", tag, desc, e));
                }
            }
        } else if op < 60 {
            desc = format!("step {} delete_file_in_dir({:?},{:?})", step, ds, name);
            let expect: Result<(RefEntry, (u32, u32)), String> = match &sfn {
                Err(_) => Err("FilenameError".into()),
                Ok(n) => match lookup(n) {
                    None => Err("NotFound".into()),
                    Some((r, p)) => {
                        if r.attr & 0x10 != 0 {
                            Err("DeleteDirAsFile".into())
                        } else if open.iter().any(|o| o.pos == p) {
                            Err("FileAlreadyOpen".into())
                        } else {
                            Ok((r, p))
                        }
                    }
                },
            };
            let chain_before = expect.as_ref().ok().map(|(r, _)| disk_chain(&img, r.cluster));
            let got = vm.delete_file_in_dir(dh, name);
            match (&got, &expect) {
                (Ok(()), Ok((_r, p))) => {
                    let raw_after = raw_dir(&img, ds);
                    let ti = raw_before.iter().position(|(_, pp)| pp == p).unwrap();
                    // the run of LFN slots directly in front
                    let mut lo = ti;
                    while lo > 0 && raw_before[lo - 1].0[11] & 0x3F == 0x0F && raw_before[lo - 1].0[0] != 0xE5 && raw_before[lo - 1].0[0] != 0 {
                        lo -= 1;
                    }
                    for (i, ((b, _), (a, _))) in raw_before.iter().zip(raw_after.iter()).enumerate() {
                        if i >= lo && i <= ti {
                            if a[0] != 0xE5 || a[1..] != b[1..] {
                                probs.push(format!("{} {}: slot {} (entry or its LFN run {}..={}) not (only) marked deleted", tag, desc, i, lo, ti));
                            }
                        } else if a != b {
                            probs.push(format!("{} {}: unrelated slot {} changed (entry at {}, run from {})", tag, desc, i, ti, lo));
                        }
                    }
                    let blk = img.disk.get(p.0);
                    if blk[p.1 as usize] != 0xE5 {
                        probs.push(format!("{} {}: slot not marked deleted", tag, desc));
                    }
                    for c in chain_before.unwrap() {
                        if disk_fat_get(&img, c) != 0 {
                            probs.push(format!("{} {}: cluster {} not freed", tag, desc, c));
                        }
                    }
                }
                (Err(e), Err(want)) => {
                    refused_expected = true;
                    if err_name(e) != *want {
                        probs.push(format!("{} {}: got {:?} want {}", tag, desc, e, want));
                    }
                }
                (g, w) => probs.push(format!("{} {}: got {:?} want {:?}", tag, desc, g, w.as_ref().map(|_| ()))),
            }
        } else if op < 68 {
            desc = format!("step {} make_dir_in_dir({:?},{:?})", step, ds, name);
            let expect: Result<(), String> = match &sfn {
                Err(_) => Err("FilenameError".into()),
                Ok(_) if name == "." || name == ".." || name.is_empty() => Err("DirAlreadyExists".into()),
                Ok(n) => match lookup(n) {
                    None => {
                        if dir_full {
                            Err("NotEnoughSpace".into())
                        } else {
                            Ok(())
                        }
                    }
                    Some((r, _)) => {
                        if r.attr & 0x10 != 0 {
                            Err("DirAlreadyExists".into())
                        } else {
                            Err("FileAlreadyExists".into())
                        }
                    }
                },
            };
            let got = vm.make_dir_in_dir(dh, name);
            match (&got, &expect) {
                (Ok(()), Ok(())) => {
                    let after = raw_list(&img, ds);
                    let nb = name_bytes(sfn.as_ref().unwrap());
                    match after.iter().find(|(r, _)| r.name == nb) {
                        None => probs.push(format!("{} {}: no entry", tag, desc)),
                        Some((r, _)) => {
                            if r.attr & 0x10 == 0 {
                                probs.push(format!("{} {}: not a dir", tag, desc));
                            }
                            let l = raw_list(&img, DirStart::Chain(r.cluster));
                            let parent_want = match ds {
                                DirStart::Root16 => 0,
                                DirStart::Chain(c) => if ds == root_start { 0 } else { c },
                            };
                            if l.len() != 2 || l[0].0.name != *b".          " || l[0].0.cluster != r.cluster || l[1].0.name != *b"..         " || l[1].0.cluster != parent_want {
                                probs.push(format!("{} {}: bad new dir contents {:?}", tag, desc, l));
                            }
                        }
                    }
                }
                (Err(e), Err(want)) => {
                    refused_expected = want != "NotEnoughSpace"; // (reported separately)
                    if err_name(e) != *want {
                        probs.push(format!("{} {}: got {:?} want {}", tag, desc, e, want));
                    }
                }
                (g, w) => probs.push(format!("{} {}: got {:?} want {:?}", tag, desc, g, w)),
            }
        } else if op < 76 {
            desc = format!("step {} open_dir({:?},{:?})", step, ds, name);
            let expect: Result<DirStart, String> = match &sfn {
                Err(_) => Err("FilenameError".into()),
                Ok(_) if name == "." || name.is_empty() => Ok(ds),
                Ok(n) => match lookup(n) {
                    None => Err("NotFound".into()),
                    Some((r, _)) => {
                        if r.attr & 0x10 == 0 {
                            Err("OpenedFileAsDir".into())
                        } else if r.cluster == 0 {
                            Ok(root_start)
                        } else {
                            Ok(DirStart::Chain(r.cluster))
                        }
                    }
                },
            };
            let got = vm.open_dir(dh, name);
            refused_expected = true; // open_dir never writes
            match (&got, &expect) {
                (Ok(h), Ok(target)) => {
                    let l = list(&vm, *h);
                    let want = raw_list(&img, *target);
                    if l.len() != want.len() {
                        probs.push(format!("{} {}: listing differs", tag, desc));
                    }
                    for (g, (r, p)) in l.iter().zip(want.iter()) {
                        let d = diff(g, r, *p);
                        if !d.is_empty() {
                            probs.push(format!("{} {}: listing differs {:?}", tag, desc, d));
                        }
                    }
                    vm.close_dir(*h).unwrap();
                }
                (Err(e), Err(want)) => {
                    if err_name(e) != *want {
                        probs.push(format!("{} {}: got {:?} want {}", tag, desc, e, want));
                    }
                }
                (g, w) => {
                    probs.push(format!("{} {}: got {:?} want {:?}", tag, desc, g, w));
                    if let Ok(h) = g {
                        vm.close_dir(*h).unwrap();
                    }
                }
            }
        } else if op < 88 && !open.is_empty() {
            // file handle operations
            let i = rng.below(open.len() as u64) as usize;
            let which = rng.below(5);
            let f = open[i].raw;
            desc = format!("step {} file op {} on {:?} handle", step, which, open[i].mode);
            match which {
                0 | 1 => {
                    let n = [0usize, 1, 100, 512, 700, 2000][rng.below(6) as usize];
                    let buf = vec![0x5Au8; n];
                    let r = if which == 0 {
                        vm.write(f, &buf).map(|_| n)
                    } else {
                        let mut ff = f.to_file(&vm);
                        let r = embedded_io::Write::write(&mut ff, &buf);
                        let _ = ff.to_raw_file();
                        r
                    };
                    if open[i].writable {
                        if let Err(e) = r {
                            probs.push(format!("{} {}: write failed {:?}", tag, desc, e));
                        }
                    } else {
                        refused_expected = n > 0 || which == 0;
                        match r {
                            Err(Error::ReadOnly) => {}
                            Ok(0) if n == 0 && which == 1 => {}
                            other => probs.push(format!("{} {}: write({}) on read-only handle gave {:?}", tag, desc, n, other)),
                        }
                    }
                }
                2 => {
                    let mut buf = [0u8; 300];
                    let mut ff = f.to_file(&vm);
                    let r = embedded_io::Read::read(&mut ff, &mut buf);
                    let _ = ff.to_raw_file();
                    refused_expected = true; // reading writes nothing
                    if let Err(e) = r {
                        probs.push(format!("{} {}: read failed {:?}", tag, desc, e));
                    }
                }
                3 => {
                    let mut ff = f.to_file(&vm);
                    let len = ff.length();
                    let tgt = rng.below(len as u64 + 3);
                    let r = embedded_io::Seek::seek(&mut ff, embedded_io::SeekFrom::Start(tgt));
                    let _ = ff.to_raw_file();
                    refused_expected = true;
                    match r {
                        Ok(p) if tgt <= len as u64 && p == tgt => {}
                        Err(Error::InvalidOffset) if tgt > len as u64 => {}
                        other => probs.push(format!("{} {}: seek {} of {} gave {:?}", tag, desc, tgt, len, other)),
                    }
                }
                _ => {
                    let len = vm.file_length(f).unwrap();
                    let was_ro = !open[i].writable;
                    let pos = open[i].pos;
                    if let Err(e) = vm.close_file(f) {
                        probs.push(format!("{} {}: close failed {:?}", tag, desc, e));
                    }
                    open.remove(i);
                    if was_ro && ft == Ft::F16 {
                        refused_expected = true; // closing a read-only handle must not write (FAT32: deferred FSInfo update is by design)
                    }
                    let blk = img.disk.get(pos.0);
                    let sz = u32::from_le_bytes([blk[pos.1 as usize + 28], blk[pos.1 as usize + 29], blk[pos.1 as usize + 30], blk[pos.1 as usize + 31]]);
                    if sz != len {
                        probs.push(format!("{} {}: after close size on disk {} want {}", tag, desc, sz, len));
                    }
                }
            }
        } else {
            desc = format!("step {} find({:?},{:?})", step, ds, name);
            refused_expected = true;
            let expect = match &sfn {
                Err(_) => Err("FilenameError".to_string()),
                Ok(n) => lookup(n).ok_or("NotFound".to_string()),
            };
            match (vm.find_directory_entry(dh, name), expect) {
                (Ok(g), Ok((r, p))) => {
                    let d = diff(&g, &r, p);
                    if !d.is_empty() {
                        probs.push(format!("{} {}: {:?}", tag, desc, d));
                    }
                }
                (Err(e), Err(w)) => {
                    if err_name(&e) != w {
                        probs.push(format!("{} {}: got {:?} want {}", tag, desc, e, w));
                    }
                }
                (g, w) => probs.push(format!("{} {}: got {:?} want {:?}", tag, desc, g, w)),
            }
        }
        if refused_expected {
            let w = img.disk.0.borrow().writes.clone();
            if !w.is_empty() {
                probs.push(format!("{} {}: refused/non-modifying call wrote blocks {:?}", tag, desc, w));
            }
            if img.disk.0.borrow().blocks != snapshot {
                probs.push(format!("{} {}: refused/non-modifying call changed the medium", tag, desc));
            }
        }
        // C06 after history: every directory lists what is on disk
        for (h, s) in dirs.iter() {
            let want = raw_list(&img, *s);
            for (which, l) in [("iterate_dir", list(&vm, *h)), ("iterate_dir_lfn", list_lfn(&vm, *h))] {
                if l.len() != want.len() {
                    probs.push(format!("{} after {}: {} of {:?} has {} entries, disk {}", tag, desc, which, s, l.len(), want.len()));
                    continue;
                }
                for (g, (r, p)) in l.iter().zip(want.iter()) {
                    let d = diff(g, r, *p);
                    if !d.is_empty() {
                        probs.push(format!("{} after {}: {} {:?}: {:?}", tag, desc, which, s, d));
                        break;
                    }
                }
            }
        }
        if probs.len() > 10 {
            break;
        }
    }
    probs
}

#[test]
fn c07_random() {
    let n: u64 = std::env::var("HUNT_N").ok().and_then(|s| s.parse().ok()).unwrap_or(200);
    let start: u64 = std::env::var("HUNT_START").ok().and_then(|s| s.parse().ok()).unwrap_or(1);
    let mut total = 0;
    for seed in start..start + n {
        for ft in [Ft::F16, Ft::F32] {
            let r = std::panic::catch_unwind(|| c07_scenario(seed, ft));
            match r {
                Ok(p) => {
                    for x in p.iter().take(4) {
                        println!("PROBLEM {}", x);
                    }
                    total += p.len();
                }
                Err(_) => {
                    println!("PANIC seed {} {:?}", seed, ft);
                    total += 1;
                }
            }
        }
    }
    assert_eq!(total, 0, "problems found");
}

// ======================================================================= targeted
fn small_img(ft: Ft, root_entries: u32) -> Img {
    Img::new(ft, 1, root_entries, 2, 1)
}

/// T1: mkdir refused in a full FAT16 root: does it write?
#[test]
fn t1_mkdir_full_root_writes() {
    let mut rng = Rng(77);
    let img = small_img(Ft::F16, 16);
    let mut slots = vec![];
    for i in 0..16u8 {
        let mut n = *b"FILE00  TXT";
        n[4] = b'0' + i / 10;
        n[5] = b'0' + i % 10;
        slots.push(mk_slot(&n, 0x20, 0, 0, &mut rng));
    }
    img.write_root16(&slots, &[]);
    img.flush_fat();
    let vm: Vm = VolumeManager::new_with_limits(img.disk.clone(), Clock, 100);
    let vol = vm.open_raw_volume(VolumeIdx(0)).unwrap();
    let root = vm.open_root_dir(vol).unwrap();
    let snapshot = img.disk.0.borrow().blocks.clone();
    img.disk.0.borrow_mut().writes.clear();
    let r = vm.make_dir_in_dir(root, "NEWDIR");
    println!("mkdir in full root: {:?}; writes {:?}", r, img.disk.0.borrow().writes);
    let changed: Vec<u32> = {
        let d = img.disk.0.borrow();
        let mut v: Vec<u32> = d.blocks.iter().filter(|(k, b)| snapshot.get(k).copied().unwrap_or([0u8; 512]) != **b).map(|(k, _)| *k).collect();
        v.sort();
        v
    };
    println!("changed blocks {:?} (first data block {})", changed, img.first_data);
    // same for a file create
    img.disk.0.borrow_mut().writes.clear();
    let r = vm.open_file_in_dir(root, "NEWFILE", Mode::ReadWriteCreate);
    println!("create in full root: {:?}; writes {:?}", r, img.disk.0.borrow().writes);
    assert!(r.is_err());
    assert!(changed.is_empty(), "refused mkdir changed the medium");
}

/// T2: '.' entry with a wrong cluster
#[test]
fn t2_dot_wrong_cluster() {
    for ft in [Ft::F16, Ft::F32] {
        let mut rng = Rng(78);
        let mut img = small_img(ft, 32);
        img.link(&[2]);
        img.link(&[10]);
        img.link(&[11]);
        let sub = vec![
            mk_slot(b".          ", 0x10, 11, 0, &mut rng), // designates OTHER
            mk_slot(b"..         ", 0x10, 0, 0, &mut rng),
            mk_slot(b"INSUB   TXT", 0x20, 0, 0, &mut rng),
        ];
        let other = vec![
            mk_slot(b".          ", 0x10, 11, 0, &mut rng),
            mk_slot(b"..         ", 0x10, 0, 0, &mut rng),
            mk_slot(b"INOTHER TXT", 0x20, 0, 0, &mut rng),
        ];
        img.write_dir_chain(&[10], &sub);
        img.write_dir_chain(&[11], &other);
        let root = vec![mk_slot(b"SUB        ", 0x10, 10, 0, &mut rng), mk_slot(b"OTHER      ", 0x10, 11, 0, &mut rng)];
        if ft == Ft::F16 {
            img.write_root16(&root, &[]);
        } else {
            img.write_dir_chain(&[2], &root);
        }
        img.flush_fat();
        let vm: Vm = VolumeManager::new_with_limits(img.disk.clone(), Clock, 100);
        let vol = vm.open_raw_volume(VolumeIdx(0)).unwrap();
        let r = vm.open_root_dir(vol).unwrap();
        let s = vm.open_dir(r, "SUB").unwrap();
        let e = vm.find_directory_entry(s, ".").unwrap();
        let d = vm.open_dir(s, ".").unwrap();
        let names: Vec<String> = list(&vm, d).iter().map(|e| e.name.to_string()).collect();
        println!("{:?}: '.' entry designates {:?}; open_dir('.') lists {:?}", ft, e.cluster, names);
    }
}

/// T3: change_dir with all directory slots in use
#[test]
fn t3_change_dir_full_table() {
    let mut rng = Rng(79);
    let mut img = small_img(Ft::F16, 32);
    img.link(&[10]);
    let sub = vec![mk_slot(b".          ", 0x10, 10, 0, &mut rng), mk_slot(b"..         ", 0x10, 0, 0, &mut rng)];
    img.write_dir_chain(&[10], &sub);
    img.write_root16(&[mk_slot(b"SUB        ", 0x10, 10, 0, &mut rng)], &[]);
    img.flush_fat();
    let vm: VolumeManager<Disk, Clock, 2, 2, 1> = VolumeManager::new_with_limits(img.disk.clone(), Clock, 100);
    let vol = vm.open_volume(VolumeIdx(0)).unwrap();
    let _a = vol.open_root_dir().unwrap();
    let mut b = vol.open_root_dir().unwrap();
    let r = b.change_dir("SUB");
    println!("change_dir with full table: {:?}", r);
}

/// T4: precedence for read-only directories
#[test]
fn t4_ro_dir_modes() {
    let mut rng = Rng(80);
    let mut img = small_img(Ft::F16, 32);
    img.link(&[10]);
    let sub = vec![mk_slot(b".          ", 0x10, 10, 0, &mut rng), mk_slot(b"..         ", 0x10, 0, 0, &mut rng)];
    img.write_dir_chain(&[10], &sub);
    img.write_root16(&[mk_slot(b"SUB        ", 0x11, 10, 0, &mut rng)], &[]);
    img.flush_fat();
    let vm: Vm = VolumeManager::new_with_limits(img.disk.clone(), Clock, 100);
    let vol = vm.open_raw_volume(VolumeIdx(0)).unwrap();
    let r = vm.open_root_dir(vol).unwrap();
    for m in MODES {
        println!("{:?} on read-only dir: {:?}", m, vm.open_file_in_dir(r, "SUB", m));
    }
    println!("delete: {:?}", vm.delete_file_in_dir(r, "SUB"));
}

/// wrapper types + embedded-io, deterministic
#[test]
fn t5_wrappers() {
    use embedded_io::{Read as _, Seek as _, Write as _};
    for ft in [Ft::F16, Ft::F32] {
        let mut rng = Rng(81);
        let mut img = small_img(ft, 32);
        img.link(&[2]);
        img.link(&[10]);
        img.link(&[20, 30, 25]);
        let sub = vec![
            mk_slot(b".          ", 0x10, 10, 0, &mut rng),
            mk_slot(b"..         ", 0x10, 0, 0, &mut rng),
            mk_slot(b"DATA    BIN", 0x20, 20, 1300, &mut rng),
            mk_slot(b"RO      BIN", 0x01, 0, 0, &mut rng),
        ];
        img.write_dir_chain(&[10], &sub);
        let root = vec![mk_slot(b"SUB        ", 0x10, 10, 0, &mut rng)];
        if ft == Ft::F16 {
            img.write_root16(&root, &[]);
        } else {
            img.write_dir_chain(&[2], &root);
        }
        for (i, c) in [20u32, 30, 25].iter().enumerate() {
            img.disk.put(img.cluster_block(*c), [b'a' + i as u8; 512]);
        }
        img.flush_fat();
        let vm: VolumeManager<Disk, Clock, 2, 2, 1> = VolumeManager::new_with_limits(img.disk.clone(), Clock, 100);
        let vol = vm.open_volume(VolumeIdx(0)).unwrap();
        let root_raw = vol.open_root_dir().unwrap().to_raw_directory();
        let root = root_raw.to_directory(&vm);
        let sub = vm.open_dir(root_raw, "SUB").unwrap().to_directory(&vm);
        assert!(matches!(root.open_dir("SUB"), Err(Error::TooManyOpenDirs)));
        img.disk.0.borrow_mut().writes.clear();
        {
            let mut f = sub.open_file_in_dir("DATA.BIN", Mode::ReadOnly).unwrap();
            assert!(matches!(sub.open_file_in_dir("data.bin", Mode::ReadOnly), Err(Error::FileAlreadyOpen)));
            assert!(matches!(sub.delete_file_in_dir("DATA.BIN"), Err(Error::FileAlreadyOpen)));
            assert!(matches!(f.write(b"x"), Err(Error::ReadOnly)));
            assert!(matches!(f.write_all(b"xyz"), Err(Error::ReadOnly)));
            assert!(matches!(embedded_io::Write::write(&mut f, b"x"), Err(Error::ReadOnly)));
            let r = embedded_io::Write::write(&mut f, b"");
            println!("{:?} io write empty on RO: {:?}", ft, r);
            assert!(embedded_io::Write::flush(&mut f).is_ok());
            let mut buf = [0u8; 2000];
            let mut n = 0;
            loop {
                let k = embedded_io::Read::read(&mut f, &mut buf[n..]).unwrap();
                if k == 0 {
                    break;
                }
                n += k;
            }
            assert_eq!(n, 1300);
            assert!(buf[..512].iter().all(|b| *b == b'a') && buf[512..1024].iter().all(|b| *b == b'b') && buf[1024..1300].iter().all(|b| *b == b'c'));
            assert_eq!(f.seek(embedded_io::SeekFrom::End(-300)).unwrap(), 1000);
            assert_eq!(f.seek(embedded_io::SeekFrom::Current(-1000)).unwrap(), 0);
            assert!(matches!(f.seek(embedded_io::SeekFrom::Current(-1)), Err(Error::InvalidOffset)));
            assert!(matches!(f.seek(embedded_io::SeekFrom::End(1)), Err(Error::InvalidOffset)));
            assert!(matches!(f.seek(embedded_io::SeekFrom::Start(1301)), Err(Error::InvalidOffset)));
            assert_eq!(f.seek(embedded_io::SeekFrom::Start(1300)).unwrap(), 1300);
            assert_eq!(f.read(&mut buf).unwrap(), 0);
        } // drop closes
        assert!(img.disk.0.borrow().writes.is_empty(), "{:?} read-only session wrote {:?}", ft, img.disk.0.borrow().writes);
        // RO attribute
        for m in [Mode::ReadWriteAppend, Mode::ReadWriteTruncate, Mode::ReadWriteCreateOrAppend, Mode::ReadWriteCreateOrTruncate] {
            assert!(matches!(sub.open_file_in_dir("RO.BIN", m), Err(Error::ReadOnly)));
        }
        assert!(matches!(sub.open_file_in_dir("RO.BIN", Mode::ReadWriteCreate), Err(Error::FileAlreadyExists)));
        assert!(img.disk.0.borrow().writes.is_empty());
        // re-open after drop works, append
        {
            let mut f = sub.open_file_in_dir("DATA.BIN", Mode::ReadWriteAppend).unwrap();
            assert_eq!(f.offset(), 1300);
            f.write_all(b"tail").unwrap();
            assert_eq!(f.length(), 1304);
        }
        let e = sub.find_directory_entry("DATA.BIN").unwrap();
        assert_eq!(e.size, 1304);
        {
            let f = sub.open_file_in_dir("DATA.BIN", Mode::ReadWriteTruncate).unwrap();
            assert_eq!(f.length(), 0);
            f.close().unwrap();
        }
        assert_eq!(sub.find_directory_entry("DATA.BIN").unwrap().size, 0);
        // change_dir round trip
        drop(root);
        let mut d = sub;
        d.change_dir("..").unwrap();
        assert!(d.find_directory_entry("SUB").is_ok());
        d.change_dir("SUB").unwrap();
        assert!(d.find_directory_entry("DATA.BIN").is_ok());
        assert!(matches!(d.change_dir("DATA.BIN"), Err(Error::OpenedFileAsDir)));
        assert!(d.find_directory_entry("DATA.BIN").is_ok());
        drop(d);
        assert!(!vm.has_open_handles());
    }
}
