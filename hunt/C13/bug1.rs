//! C13 bug 1: `acquire()` panics ("attempt to add with overflow") instead of
//! returning `Err(CardNotFound)` when `AcquireOpts::acquire_retries` is 2^31 or
//! more and the card keeps answering CMD0 with something other than 0x01.
//!
//! The bus fault simulated here is the simplest one there is: MISO stuck low
//! (no card in the socket and a pull-down, or a shorted data-out line), i.e.
//! "a card that answers a constant byte". Every CMD0 gets the "response" 0x00,
//! which is not R1_IDLE_STATE, so the driver says "Got response: 0, trying
//! again.." and goes round the `for _attempts in 1..` loop in
//! src/sdcard/mod.rs:445. The retry budget is a `u32`
//! (`Delay::new(s.options.acquire_retries)`), but the loop counter `_attempts`
//! is only ever used in a `trace!` and so defaults to `i32`: with
//! `acquire_retries = u32::MAX` ("keep trying until a card shows up") the
//! counter overflows after 2^31 - 1 attempts, long before the budget is used
//! up, and in a build with overflow checks (every debug build) the call
//! panics.
//!
//! Clause violated: "Whatever the card does - including answering nothing,
//! staying busy forever, or dying at any byte - every driver call returns
//! within a fixed bound on SPI traffic". The bound here is
//! (acquire_retries + 1) * 7 bytes and the expected result is
//! Err(CardNotFound); the call does not return at all, it panics.
//!
//! The loop is cheap (7 bytes per attempt) but there are 2^31 of them: run
//! with optimisation but overflow checks still on (the default for the test
//! profile), e.g.
//!
//!   CARGO_PROFILE_TEST_OPT_LEVEL=3 CARGO_PROFILE_DEV_OPT_LEVEL=3 \
//!       cargo test --offline --test bug1 -- --nocapture
//!
//! (takes about a minute; an unoptimised build needs 10-20 minutes).

use embedded_sdmmc::sdcard::{AcquireOpts, Error, SdCard};
use embedded_sdmmc::BlockDevice;
use std::cell::Cell;
use std::rc::Rc;

/// An SPI device whose MISO line is stuck low: every byte read is 0x00.
struct StuckLow {
    bytes: Rc<Cell<u64>>,
}

#[derive(Debug)]
struct Never;
impl embedded_hal::spi::Error for Never {
    fn kind(&self) -> embedded_hal::spi::ErrorKind {
        embedded_hal::spi::ErrorKind::Other
    }
}
impl embedded_hal::spi::ErrorType for StuckLow {
    type Error = Never;
}
impl embedded_hal::spi::SpiDevice<u8> for StuckLow {
    fn transaction(
        &mut self,
        operations: &mut [embedded_hal::spi::Operation<'_, u8>],
    ) -> Result<(), Never> {
        use embedded_hal::spi::Operation::*;
        let mut n = 0u64;
        for op in operations {
            match op {
                Read(buf) => {
                    buf.fill(0);
                    n += buf.len() as u64;
                }
                Write(buf) => n += buf.len() as u64,
                Transfer(r, w) => {
                    r.fill(0);
                    n += r.len().max(w.len()) as u64;
                }
                TransferInPlace(buf) => {
                    buf.fill(0);
                    n += buf.len() as u64;
                }
                DelayNs(_) => {}
            }
        }
        self.bytes.set(self.bytes.get() + n);
        Ok(())
    }
}

/// A delay that returns immediately.
struct NoDelay;
impl embedded_hal::delay::DelayNs for NoDelay {
    fn delay_ns(&mut self, _ns: u32) {}
}

#[test]
fn acquire_with_a_large_retry_budget_returns_card_not_found() {
    let bytes = Rc::new(Cell::new(0u64));
    let card = SdCard::new_with_options(
        StuckLow {
            bytes: bytes.clone(),
        },
        NoDelay,
        AcquireOpts {
            use_crc: true,
            // "keep trying": the documented meaning is the number of times
            // acquisition is retried before Err(CardNotFound) is returned
            acquire_retries: u32::MAX,
        },
    );
    let result = std::panic::catch_unwind(std::panic::AssertUnwindSafe(|| card.num_blocks()));
    let traffic = bytes.get();
    println!("traffic: {} bytes, result: {:?}", traffic, result.as_ref().map_err(|_| "PANIC"));
    match result {
        Ok(Err(Error::CardNotFound)) => {
            // (u32::MAX + 1) attempts of 6 command bytes + 1 response byte,
            // plus the trailing byte of acquire()
            assert_eq!(traffic, (u32::MAX as u64 + 1) * 7 + 1);
        }
        Ok(other) => panic!("expected Err(CardNotFound), got {:?}", other),
        Err(_) => panic!(
            "the driver call panicked after {} bytes of traffic instead of returning Err(CardNotFound)",
            traffic
        ),
    }
}
