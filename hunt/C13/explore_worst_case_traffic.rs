//! how much traffic can a single call cost? (adversarial but bounded card)
use embedded_sdmmc::sdcard::{AcquireOpts, SdCard};
use embedded_sdmmc::BlockDevice;
use std::cell::Cell;
use std::rc::Rc;

/// A card that drags everything out: before each command it looks busy for
/// 9 999 bytes, it answers each command after 9 999 bytes, and ACMD41 always
/// says "still initialising".
struct Slow {
    bytes: Rc<Cell<u64>>,
    phase: u32, // 0: busy countdown, 1: idle waiting for a command, 2: response countdown
    cnt: u32,
    frame: Vec<u8>,
    resp: u8,
}
#[derive(Debug)]
struct Never;
impl embedded_hal::spi::Error for Never {
    fn kind(&self) -> embedded_hal::spi::ErrorKind {
        embedded_hal::spi::ErrorKind::Other
    }
}
impl embedded_hal::spi::ErrorType for Slow {
    type Error = Never;
}
impl Slow {
    fn byte(&mut self, mosi: u8) -> u8 {
        self.bytes.set(self.bytes.get() + 1);
        match self.phase {
            0 => {
                if self.cnt > 0 {
                    self.cnt -= 1;
                    0x00
                } else {
                    self.phase = 1;
                    0xFF
                }
            }
            1 => {
                if !self.frame.is_empty() || mosi & 0xC0 == 0x40 {
                    self.frame.push(mosi);
                    if self.frame.len() == 6 {
                        let cmd = self.frame[0] & 0x3F;
                        self.frame.clear();
                        self.resp = match cmd {
                            8 => 0x05,
                            _ => 0x01,
                        };
                        self.phase = 2;
                        self.cnt = 9_999;
                    }
                }
                0xFF
            }
            _ => {
                if self.cnt > 0 {
                    self.cnt -= 1;
                    0xFF
                } else {
                    self.phase = 0;
                    self.cnt = 9_999;
                    self.resp
                }
            }
        }
    }
}
impl embedded_hal::spi::SpiDevice<u8> for Slow {
    fn transaction(&mut self, operations: &mut [embedded_hal::spi::Operation<'_, u8>]) -> Result<(), Never> {
        use embedded_hal::spi::Operation::*;
        for op in operations {
            match op {
                Read(buf) => {
                    for b in buf.iter_mut() {
                        *b = self.byte(0xFF);
                    }
                }
                Write(buf) => {
                    for b in buf.iter() {
                        self.byte(*b);
                    }
                }
                Transfer(r, w) => {
                    for i in 0..r.len().max(w.len()) {
                        let x = self.byte(w.get(i).copied().unwrap_or(0xFF));
                        if let Some(s) = r.get_mut(i) {
                            *s = x;
                        }
                    }
                }
                TransferInPlace(buf) => {
                    for b in buf.iter_mut() {
                        *b = self.byte(*b);
                    }
                }
                DelayNs(_) => {}
            }
        }
        Ok(())
    }
}
struct CountDelay(Rc<Cell<u64>>);
impl embedded_hal::delay::DelayNs for CountDelay {
    fn delay_ns(&mut self, ns: u32) {
        self.0.set(self.0.get() + ns as u64);
    }
}

#[test]
fn worst() {
    let bytes = Rc::new(Cell::new(0u64));
    let ns = Rc::new(Cell::new(0u64));
    let card = SdCard::new_with_options(
        Slow { bytes: bytes.clone(), phase: 1, cnt: 0, frame: vec![], resp: 0 },
        CountDelay(ns.clone()),
        AcquireOpts { use_crc: false, acquire_retries: 50 },
    );
    let r = card.num_blocks();
    println!("result {:?}, traffic {} bytes, requested delay {} s", r, bytes.get(), ns.get() as f64 / 1e9);
}
