//! Exploration harness for C13: byte-level simulated SD card with fault injection.
#![allow(dead_code)]

use embedded_sdmmc::sdcard::{AcquireOpts, SdCard};
use embedded_sdmmc::{Block, BlockDevice, BlockIdx};
use std::cell::RefCell;
use std::collections::VecDeque;
use std::rc::Rc;

pub fn crc7(data: &[u8]) -> u8 {
    let mut crc = 0u8;
    for mut d in data.iter().cloned() {
        for _ in 0..8 {
            crc <<= 1;
            if ((d & 0x80) ^ (crc & 0x80)) != 0 {
                crc ^= 0x09;
            }
            d <<= 1;
        }
    }
    (crc << 1) | 1
}

pub fn crc16(data: &[u8]) -> u16 {
    let mut crc = 0u16;
    for &b in data {
        crc ^= (b as u16) << 8;
        for _ in 0..8 {
            if crc & 0x8000 != 0 {
                crc = (crc << 1) ^ 0x1021;
            } else {
                crc <<= 1;
            }
        }
    }
    crc
}

#[derive(Clone, Copy, PartialEq, Eq, Debug)]
pub enum Kind {
    Sd1,
    Sd2,
    Sdhc,
}

#[derive(Clone, Copy, PartialEq, Eq, Debug)]
enum Out {
    B(u8),
    Busy(usize),
}

#[derive(Clone, Copy, PartialEq, Eq, Debug)]
enum St {
    Cmd,
    /// sending data blocks (multi = keep going until CMD12)
    ReadData { multi: bool, blk: u32 },
    /// waiting for a data token for a write
    WriteWait { multi: bool, blk: u32 },
    /// receiving data of a block
    WriteRecv { multi: bool, blk: u32, tok: u8 },
}

/// Card-level (semantic) faults
#[derive(Clone, Debug, Default)]
pub struct CardFaults {
    /// OR these bits into the R1 of the given command index (cmd, bits)
    pub r1_or: Vec<(u8, u8)>,
    /// answer this data-response token instead of "accepted", for the n-th data block received (0-based)
    pub data_resp: Option<(usize, u8)>,
    /// do not store the n-th received block, and report this R2 status byte afterwards
    pub prog_fail: Option<(usize, u8)>,
    /// send this token instead of the data start token for the n-th block sent
    pub err_token: Option<(usize, u8)>,
    /// the card is write protected: data blocks are acknowledged but not
    /// programmed, and the WP_VIOLATION bit is raised in the status register
    pub write_protected: bool,
    /// busy forever after the stop token
    pub busy_forever_after_stop: bool,
    /// one byte of 0xFF (Nbr) between the stop token and busy
    pub stop_gap: bool,
    /// number of busy bytes after a programmed block
    pub busy_len: usize,
    /// number of ACMD41 answers with idle bit before ready
    pub acmd41_idle: usize,
}

pub struct Card {
    pub kind: Kind,
    pub mem: Vec<[u8; 512]>,
    st: St,
    idle: bool,
    inited: bool,
    crc_on: bool,
    app: bool,
    frame: Vec<u8>,
    out: VecDeque<Out>,
    busy: usize, // usize::MAX = forever
    status2: u8, // second byte of R2
    rx: Vec<u8>,
    pub blocks_rx: usize,
    pub blocks_tx: usize,
    acmd41_left: usize,
    pub faults: CardFaults,
    pub cmd_log: Vec<(u8, u32, u8)>,
    pub stray: usize,
}

impl Card {
    pub fn new(kind: Kind, nblocks: usize) -> Card {
        let mut mem = vec![[0u8; 512]; nblocks];
        for (i, b) in mem.iter_mut().enumerate() {
            for (j, x) in b.iter_mut().enumerate() {
                *x = (i as u8).wrapping_mul(31).wrapping_add((j as u8).wrapping_mul(7)) ^ ((j >> 8) as u8) ^ 0x5A;
            }
        }
        Card {
            kind,
            mem,
            st: St::Cmd,
            idle: false,
            inited: false,
            crc_on: false,
            app: false,
            frame: vec![],
            out: VecDeque::new(),
            busy: 0,
            status2: 0,
            rx: vec![],
            blocks_rx: 0,
            blocks_tx: 0,
            acmd41_left: 2,
            faults: CardFaults {
                busy_len: 3,
                acmd41_idle: 2,
                ..Default::default()
            },
            cmd_log: vec![],
            stray: 0,
        }
    }

    pub fn power_cycle(&mut self) {
        self.st = St::Cmd;
        self.idle = false;
        self.inited = false;
        self.crc_on = false;
        self.app = false;
        self.frame.clear();
        self.out.clear();
        self.busy = 0;
        self.status2 = 0;
        self.rx.clear();
        self.acmd41_left = self.faults.acmd41_idle;
    }

    fn csd(&self) -> [u8; 16] {
        let mut d = [0u8; 16];
        match self.kind {
            Kind::Sdhc => {
                d[0] = 0x40;
                d[1] = 0x0E;
                d[3] = 0x32;
                d[4] = 0x5B;
                d[5] = 0x59;
                let c = (self.mem.len() as u32 / 1024).max(1) - 1;
                d[7] = (c >> 16) as u8 & 0x3F;
                d[8] = (c >> 8) as u8;
                d[9] = c as u8;
                d[10] = 0x7F;
                d[11] = 0x80;
                d[12] = 0x0A;
                d[13] = 0x40;
            }
            _ => {
                d.copy_from_slice(&[
                    0x00, 0x26, 0x00, 0x32, 0x5F, 0x59, 0x83, 0xC8, 0xAD, 0xDB, 0xCF, 0xFF, 0xD2,
                    0x40, 0x40, 0x00,
                ]);
            }
        }
        d[15] = crc7(&d[..15]);
        d
    }

    fn addr_to_blk(&self, arg: u32) -> Option<u32> {
        let b = match self.kind {
            Kind::Sdhc => arg,
            _ => {
                if arg % 512 != 0 {
                    return None;
                }
                arg / 512
            }
        };
        if (b as usize) < self.mem.len() {
            Some(b)
        } else {
            None
        }
    }

    fn queue_block(&mut self, blk: u32) {
        // Nac gap
        self.out.push_back(Out::B(0xFF));
        self.out.push_back(Out::B(0xFF));
        let n = self.blocks_tx;
        self.blocks_tx += 1;
        if let Some((k, t)) = self.faults.err_token {
            if k == n {
                self.out.push_back(Out::B(t));
                self.st = St::Cmd;
                return;
            }
        }
        if (blk as usize) >= self.mem.len() {
            self.out.push_back(Out::B(0x08)); // out of range error token
            self.st = St::Cmd;
            return;
        }
        self.out.push_back(Out::B(0xFE));
        let d = self.mem[blk as usize];
        self.out.extend(d.iter().map(|&b| Out::B(b)));
        let c = crc16(&d);
        self.out.push_back(Out::B((c >> 8) as u8));
        self.out.push_back(Out::B(c as u8));
    }

    fn r1(&self, cmd: u8, base: u8) -> u8 {
        let mut r = base | if self.idle { 1 } else { 0 };
        for &(c, bits) in &self.faults.r1_or {
            if c == cmd {
                r |= bits;
            }
        }
        r
    }

    fn command(&mut self, f: [u8; 6]) {
        let cmd = f[0] & 0x3F;
        let arg = u32::from_be_bytes([f[1], f[2], f[3], f[4]]);
        let app = self.app;
        self.app = false;
        // NCR
        self.out.push_back(Out::B(0xFF));
        let crc_ok = crc7(&f[..5]) == f[5];
        if (self.crc_on || cmd == 0 || cmd == 8) && !crc_ok {
            let r = self.r1(cmd, 0x08);
            self.cmd_log.push((cmd, arg, r));
            self.out.push_back(Out::B(r));
            return;
        }
        let r;
        match (app, cmd) {
            (_, 0) => {
                self.idle = true;
                self.inited = false;
                self.crc_on = false;
                self.st = St::Cmd;
                self.acmd41_left = self.faults.acmd41_idle;
                r = self.r1(cmd, 0);
                self.out.push_back(Out::B(r));
            }
            (_, 8) => {
                if self.kind == Kind::Sd1 {
                    r = self.r1(cmd, 0x04);
                    self.out.push_back(Out::B(r));
                } else {
                    r = self.r1(cmd, 0);
                    self.out.push_back(Out::B(r));
                    if r & 0x7C == 0 {
                        self.out.extend([0x00, 0x00, f[3] & 0x0F, f[4]].iter().map(|&b| Out::B(b)));
                    }
                }
            }
            (_, 59) => {
                self.crc_on = arg & 1 == 1;
                r = self.r1(cmd, 0);
                self.out.push_back(Out::B(r));
            }
            (_, 55) => {
                r = self.r1(cmd, 0);
                if r & 0x7C == 0 {
                    self.app = true;
                }
                self.out.push_back(Out::B(r));
            }
            (true, 41) => {
                if self.acmd41_left > 0 {
                    self.acmd41_left -= 1;
                } else {
                    self.idle = false;
                    self.inited = true;
                }
                r = self.r1(cmd, 0);
                self.out.push_back(Out::B(r));
            }
            (_, 58) => {
                r = self.r1(cmd, 0);
                self.out.push_back(Out::B(r));
                if r & 0x7C == 0 {
                    let b0 = if self.inited {
                        if self.kind == Kind::Sdhc {
                            0xC0
                        } else {
                            0x80
                        }
                    } else {
                        0x00
                    };
                    self.out.extend([b0, 0xFF, 0x80, 0x00].iter().map(|&b| Out::B(b)));
                }
            }
            _ if !self.inited => {
                r = self.r1(cmd, 0x04);
                self.out.push_back(Out::B(r));
            }
            (_, 9) => {
                r = self.r1(cmd, 0);
                self.out.push_back(Out::B(r));
                if r & 0x7E == 0 {
                    self.out.push_back(Out::B(0xFF));
                    self.out.push_back(Out::B(0xFE));
                    let d = self.csd();
                    self.out.extend(d.iter().map(|&b| Out::B(b)));
                    let c = crc16(&d);
                    self.out.push_back(Out::B((c >> 8) as u8));
                    self.out.push_back(Out::B(c as u8));
                }
            }
            (_, 13) => {
                r = self.r1(cmd, 0);
                self.out.push_back(Out::B(r));
                self.out.push_back(Out::B(self.status2));
                self.status2 = 0;
            }
            (_, 12) => {
                // only meaningful during a multi-block read; handled by caller for state
                r = self.r1(cmd, 0);
                self.out.push_back(Out::B(r));
                self.out.push_back(Out::Busy(1));
            }
            (_, 17) | (_, 18) => match self.addr_to_blk(arg) {
                Some(b) if self.r1(cmd, 0) == 0 => {
                    r = 0;
                    self.out.push_back(Out::B(r));
                    self.st = St::ReadData {
                        multi: cmd == 18,
                        blk: b,
                    };
                    self.queue_block(b);
                }
                Some(_) => {
                    r = self.r1(cmd, 0);
                    self.out.push_back(Out::B(r));
                }
                None => {
                    r = self.r1(cmd, 0x40);
                    self.out.push_back(Out::B(r));
                }
            },
            (_, 24) | (_, 25) => match self.addr_to_blk(arg) {
                Some(b) if self.r1(cmd, 0) == 0 => {
                    r = 0;
                    self.out.push_back(Out::B(r));
                    self.st = St::WriteWait {
                        multi: cmd == 25,
                        blk: b,
                    };
                }
                Some(_) => {
                    r = self.r1(cmd, 0);
                    self.out.push_back(Out::B(r));
                }
                None => {
                    r = self.r1(cmd, 0x40);
                    self.out.push_back(Out::B(r));
                }
            },
            (true, 23) => {
                r = self.r1(cmd, 0);
                self.out.push_back(Out::B(r));
            }
            _ => {
                r = self.r1(cmd, 0x04);
                self.out.push_back(Out::B(r));
            }
        }
        self.cmd_log.push((cmd, arg, r));
    }

    /// One byte exchanged with CS asserted.
    pub fn exchange(&mut self, mosi: u8) -> u8 {
        if self.busy > 0 {
            if self.busy != usize::MAX {
                self.busy -= 1;
            }
            if mosi != 0xFF {
                self.stray += 1;
            }
            return 0x00;
        }
        let miso = match self.out.pop_front() {
            None => 0xFF,
            Some(Out::B(b)) => b,
            Some(Out::Busy(n)) => {
                self.busy = if n == usize::MAX { n } else { n.saturating_sub(1) };
                if mosi != 0xFF {
                    self.stray += 1;
                }
                return 0x00;
            }
        };
        match self.st {
            St::Cmd | St::ReadData { .. } => {
                if self.frame.is_empty() {
                    if mosi & 0xC0 == 0x40 {
                        self.frame.push(mosi);
                    } else if mosi != 0xFF {
                        self.stray += 1;
                    }
                } else {
                    self.frame.push(mosi);
                    if self.frame.len() == 6 {
                        let mut f = [0u8; 6];
                        f.copy_from_slice(&self.frame);
                        self.frame.clear();
                        if let St::ReadData { .. } = self.st {
                            if f[0] & 0x3F == 12 {
                                self.out.clear();
                                self.st = St::Cmd;
                                // stuff byte
                                self.out.push_back(Out::B(0x7F));
                                self.command(f);
                            } else {
                                self.stray += 1;
                            }
                        } else {
                            self.command(f);
                        }
                    }
                }
                if let St::ReadData { multi, blk } = self.st {
                    if self.out.is_empty() {
                        if multi {
                            self.st = St::ReadData {
                                multi,
                                blk: blk + 1,
                            };
                            self.queue_block(blk + 1);
                        } else {
                            self.st = St::Cmd;
                        }
                    }
                }
            }
            St::WriteWait { multi, blk } => {
                if mosi == 0xFE && !multi || mosi == 0xFC && multi {
                    self.rx.clear();
                    self.st = St::WriteRecv {
                        multi,
                        blk,
                        tok: mosi,
                    };
                } else if mosi == 0xFD && multi {
                    self.st = St::Cmd;
                    // optional gap byte (Nbr), then busy
                    if self.faults.stop_gap {
                        self.out.push_back(Out::B(0xFF));
                    }
                    self.out.push_back(Out::Busy(if self.faults.busy_forever_after_stop {
                        usize::MAX
                    } else {
                        self.faults.busy_len
                    }));
                } else if mosi != 0xFF {
                    self.stray += 1;
                }
            }
            St::WriteRecv { multi, blk, .. } => {
                self.rx.push(mosi);
                if self.rx.len() == 514 {
                    let n = self.blocks_rx;
                    self.blocks_rx += 1;
                    let crc = u16::from_be_bytes([self.rx[512], self.rx[513]]);
                    let mut resp = 0xE5u8;
                    if self.crc_on && crc != crc16(&self.rx[..512]) {
                        resp = 0xEB;
                    }
                    if (blk as usize) >= self.mem.len() {
                        resp = 0xED;
                    }
                    if let Some((k, t)) = self.faults.data_resp {
                        if k == n {
                            resp = t;
                        }
                    }
                    self.out.push_back(Out::B(resp));
                    if resp & 0x1F == 0x05 {
                        let mut failed = false;
                        if let Some((k, s2)) = self.faults.prog_fail {
                            if k == n {
                                failed = true;
                                self.status2 |= s2;
                            }
                        }
                        if self.faults.write_protected {
                            failed = true;
                            self.status2 |= 0x20;
                        }
                        if !failed {
                            let mut d = [0u8; 512];
                            d.copy_from_slice(&self.rx[..512]);
                            self.mem[blk as usize] = d;
                        }
                        self.out.push_back(Out::Busy(self.faults.busy_len));
                        self.st = if multi {
                            St::WriteWait {
                                multi,
                                blk: blk + 1,
                            }
                        } else {
                            St::Cmd
                        };
                    } else {
                        // rejected: further blocks are refused until the stop token
                        self.st = if multi {
                            St::WriteWait {
                                multi,
                                blk: u32::MAX - 1,
                            }
                        } else {
                            St::Cmd
                        };
                    }
                }
            }
        }
        miso
    }
}

// ---------------------------------------------------------------------------
// The bus: SpiDevice + DelayNs over a shared simulation, with line faults
// ---------------------------------------------------------------------------

#[derive(Clone, Copy, Debug, PartialEq, Eq)]
pub enum Line {
    /// card dead from byte k on; MISO reads this constant
    Const(u8),
    /// card dead from byte k on; MISO reads pseudo-random garbage
    Garbage(u32),
}

pub struct Sim {
    pub card: Card,
    /// number of bytes exchanged so far
    pub bytes: usize,
    /// number of SPI transactions so far
    pub txns: usize,
    pub delays: usize,
    /// from byte index k on the card is dead
    pub dead_from: Option<(usize, Line)>,
    /// XOR the MISO byte with index k with mask
    pub flip: Option<(usize, u8)>,
    /// replace MISO byte k with value
    pub replace: Option<(usize, u8)>,
    /// fail this transaction index
    pub fail_txn: Option<usize>,
    /// hard limit on traffic; exceeding it panics
    pub limit: usize,
    rng: u32,
}

impl Sim {
    pub fn new(card: Card) -> Sim {
        Sim {
            card,
            bytes: 0,
            txns: 0,
            delays: 0,
            dead_from: None,
            flip: None,
            replace: None,
            fail_txn: None,
            limit: 50_000_000,
            rng: 1,
        }
    }
    pub fn clear_line_faults(&mut self) {
        self.dead_from = None;
        self.flip = None;
        self.replace = None;
        self.fail_txn = None;
    }
    fn byte(&mut self, mosi: u8) -> u8 {
        let k = self.bytes;
        self.bytes += 1;
        if self.bytes > self.limit {
            panic!("TRAFFIC LIMIT exceeded: {} bytes", self.bytes);
        }
        if let Some((from, line)) = self.dead_from {
            if k >= from {
                return match line {
                    Line::Const(v) => v,
                    Line::Garbage(seed) => {
                        self.rng = self
                            .rng
                            .wrapping_add(seed)
                            .wrapping_mul(1664525)
                            .wrapping_add(1013904223);
                        (self.rng >> 24) as u8
                    }
                };
            }
        }
        let mut miso = self.card.exchange(mosi);
        if let Some((at, m)) = self.flip {
            if at == k {
                miso ^= m;
            }
        }
        if let Some((at, v)) = self.replace {
            if at == k {
                miso = v;
            }
        }
        miso
    }
    fn txn_start(&mut self) -> Result<(), BusErr> {
        let t = self.txns;
        self.txns += 1;
        if self.fail_txn == Some(t) {
            return Err(BusErr);
        }
        Ok(())
    }
}

#[derive(Debug, Clone, Copy)]
pub struct BusErr;
impl embedded_hal::spi::Error for BusErr {
    fn kind(&self) -> embedded_hal::spi::ErrorKind {
        embedded_hal::spi::ErrorKind::Other
    }
}

#[derive(Clone)]
pub struct Bus(pub Rc<RefCell<Sim>>);

impl embedded_hal::spi::ErrorType for Bus {
    type Error = BusErr;
}

impl embedded_hal::spi::SpiDevice<u8> for Bus {
    fn transaction(
        &mut self,
        operations: &mut [embedded_hal::spi::Operation<'_, u8>],
    ) -> Result<(), BusErr> {
        use embedded_hal::spi::Operation::*;
        let mut s = self.0.borrow_mut();
        s.txn_start()?;
        for op in operations {
            match op {
                Read(buf) => {
                    for b in buf.iter_mut() {
                        *b = s.byte(0xFF);
                    }
                }
                Write(buf) => {
                    for b in buf.iter() {
                        s.byte(*b);
                    }
                }
                Transfer(r, w) => {
                    let n = r.len().max(w.len());
                    for i in 0..n {
                        let o = w.get(i).copied().unwrap_or(0xFF);
                        let x = s.byte(o);
                        if let Some(slot) = r.get_mut(i) {
                            *slot = x;
                        }
                    }
                }
                TransferInPlace(buf) => {
                    for b in buf.iter_mut() {
                        *b = s.byte(*b);
                    }
                }
                DelayNs(_) => {}
            }
        }
        Ok(())
    }
}

#[derive(Clone)]
pub struct NoDelay(pub Rc<RefCell<Sim>>);
impl embedded_hal::delay::DelayNs for NoDelay {
    fn delay_ns(&mut self, _ns: u32) {
        self.0.borrow_mut().delays += 1;
    }
}

pub type Drv = SdCard<Bus, NoDelay>;

pub fn setup(kind: Kind, use_crc: bool) -> (Rc<RefCell<Sim>>, Drv) {
    let sim = Rc::new(RefCell::new(Sim::new(Card::new(kind, 2048))));
    let drv = SdCard::new_with_options(
        Bus(sim.clone()),
        NoDelay(sim.clone()),
        AcquireOpts {
            use_crc,
            acquire_retries: 50,
        },
    );
    (sim, drv)
}

#[test]
fn sanity() {
    for kind in [Kind::Sd1, Kind::Sd2, Kind::Sdhc] {
        for crc in [true, false] {
            let (sim, drv) = setup(kind, crc);
            let n = drv.num_blocks().unwrap();
            println!("{:?} crc={} num_blocks={:?} bytes={}", kind, crc, n, sim.borrow().bytes);
            let mut b = [Block::new()];
            drv.read(&mut b, BlockIdx(5)).unwrap();
            assert_eq!(b[0].contents, sim.borrow().card.mem[5]);
            let mut bs = [Block::new(), Block::new(), Block::new()];
            drv.read(&mut bs, BlockIdx(7)).unwrap();
            for i in 0..3 {
                assert_eq!(bs[i].contents, sim.borrow().card.mem[7 + i]);
            }
            let mut w = Block::new();
            for (i, x) in w.contents.iter_mut().enumerate() {
                *x = (i * 3) as u8;
            }
            drv.write(&[w.clone()], BlockIdx(9)).unwrap();
            assert_eq!(w.contents, sim.borrow().card.mem[9]);
            drv.write(&[w.clone(), w.clone()], BlockIdx(20)).unwrap();
            assert_eq!(w.contents, sim.borrow().card.mem[20]);
            assert_eq!(w.contents, sim.borrow().card.mem[21]);
            drv.read(&mut b, BlockIdx(21)).unwrap();
            assert_eq!(b[0].contents, w.contents);
            println!("  stray={} log={:?}", sim.borrow().card.stray, sim.borrow().card.cmd_log);
            assert_eq!(sim.borrow().card.stray, 0);
        }
    }
}

// ---------------------------------------------------------------------------
// Scans
// ---------------------------------------------------------------------------

#[derive(Clone, Copy, Debug, PartialEq, Eq, Hash, PartialOrd, Ord)]
pub enum Op {
    Init,
    Csd,
    Read1,
    ReadN,
    Write1,
    WriteN,
}

#[derive(Clone, Copy, Debug)]
pub enum Fault {
    None,
    Dead(usize, Line),
    Flip(usize, u8),
    Replace(usize, u8),
    FailTxn(usize),
}

fn pattern(seed: u8) -> Block {
    let mut w = Block::new();
    for (i, x) in w.contents.iter_mut().enumerate() {
        *x = (i as u8).wrapping_mul(13).wrapping_add(seed) ^ 0xA5;
    }
    w
}

/// returns (description of violation or None, bytes used by op, txns used by op, result string)
fn run(kind: Kind, crc: bool, op: Op, fault: Fault, fresh: bool) -> (Option<String>, usize, usize, String) {
    let (sim, drv) = setup(kind, crc);
    if !fresh && op != Op::Init {
        drv.num_blocks().unwrap();
    }
    let (b0, t0) = {
        let s = sim.borrow();
        (s.bytes, s.txns)
    };
    {
        let mut s = sim.borrow_mut();
        match fault {
            Fault::None => {}
            Fault::Dead(k, l) => s.dead_from = Some((b0 + k, l)),
            Fault::Flip(k, m) => s.flip = Some((b0 + k, m)),
            Fault::Replace(k, v) => s.replace = Some((b0 + k, v)),
            Fault::FailTxn(t) => s.fail_txn = Some(t0 + t),
        }
        s.limit = b0 + 5_000_000;
    }
    let orig: Vec<[u8; 512]> = sim.borrow().card.mem[..64].to_vec();
    let wr = [pattern(1), pattern(2), pattern(3)];
    let res = std::panic::catch_unwind(std::panic::AssertUnwindSafe(|| -> Result<Option<String>, String> {
        match op {
            Op::Init | Op::Csd => match drv.num_blocks() {
                Ok(n) => {
                    let want = if kind == Kind::Sdhc { 2048 } else { 1_984_000 };
                    if n.0 != want {
                        Ok(Some(format!("num_blocks Ok({}) want {}", n.0, want)))
                    } else {
                        Ok(None)
                    }
                }
                Err(e) => Err(format!("{:?}", e)),
            },
            Op::Read1 => {
                let mut b = [Block::new()];
                match drv.read(&mut b, BlockIdx(5)) {
                    Ok(()) => {
                        if b[0].contents != orig[5] {
                            Ok(Some("read1 Ok with wrong data".into()))
                        } else {
                            Ok(None)
                        }
                    }
                    Err(e) => Err(format!("{:?}", e)),
                }
            }
            Op::ReadN => {
                let mut b = [Block::new(), Block::new(), Block::new()];
                match drv.read(&mut b, BlockIdx(7)) {
                    Ok(()) => {
                        for i in 0..3 {
                            if b[i].contents != orig[7 + i] {
                                return Ok(Some(format!("readN Ok with wrong data in block {}", i)));
                            }
                        }
                        Ok(None)
                    }
                    Err(e) => Err(format!("{:?}", e)),
                }
            }
            Op::Write1 => match drv.write(&wr[..1], BlockIdx(9)) {
                Ok(()) => {
                    if sim.borrow().card.mem[9] != wr[0].contents {
                        Ok(Some("write1 Ok but card does not hold the data".into()))
                    } else {
                        Ok(None)
                    }
                }
                Err(e) => Err(format!("{:?}", e)),
            },
            Op::WriteN => match drv.write(&wr, BlockIdx(20)) {
                Ok(()) => {
                    for i in 0..3 {
                        if sim.borrow().card.mem[20 + i] != wr[i].contents {
                            return Ok(Some(format!("writeN Ok but card does not hold block {}", i)));
                        }
                    }
                    Ok(None)
                }
                Err(e) => Err(format!("{:?}", e)),
            },
        }
    }));
    let (b1, t1) = {
        let s = sim.borrow();
        (s.bytes, s.txns)
    };
    let mut viol = None;
    let rs;
    match res {
        Err(p) => {
            let msg = p
                .downcast_ref::<String>()
                .cloned()
                .or_else(|| p.downcast_ref::<&str>().map(|s| s.to_string()))
                .unwrap_or_default();
            viol = Some(format!("PANIC {}", msg));
            rs = "panic".to_string();
        }
        Ok(Ok(v)) => {
            viol = v;
            rs = "Ok".into();
        }
        Ok(Err(e)) => {
            rs = e;
        }
    }
    // recovery
    if viol.is_none() {
        let failed = rs != "Ok";
        {
            let mut s = sim.borrow_mut();
            s.clear_line_faults();
            s.limit = usize::MAX;
        }
        if false && failed && op == Op::Init {
            // a failed initialisation must have left the driver uninitialised;
            // if it was the CSD read that failed, card and driver are both initialised
        } else {
            sim.borrow_mut().card.power_cycle();
            drv.mark_card_uninit();
        }
        let mut b = [Block::new()];
        match drv.read(&mut b, BlockIdx(40)) {
            Ok(()) => {
                if b[0].contents != orig[40] {
                    viol = Some("recovery read wrong data".into());
                }
            }
            Err(e) => {
                let short: String = rs.chars().take_while(|c| *c != '(').collect();
                viol = Some(format!("recovery failed: {:?} (op result {})", e, short))
            }
        }
    }
    (viol, b1 - b0, t1 - t0, rs)
}

fn scan(kinds: &[Kind], crcs: &[bool], ops: &[Op], fresh: bool) {
    use std::collections::BTreeMap;
    let mut cats: BTreeMap<String, (usize, Vec<String>)> = BTreeMap::new();
    let mut maxbytes = 0usize;
    let mut runs = 0usize;
    for &kind in kinds {
        for &crc in crcs {
            for &op in ops {
                let (v, nb, nt, rs) = run(kind, crc, op, Fault::None, fresh);
                assert!(v.is_none(), "clean run violates: {:?}", v);
                assert_eq!(rs, "Ok");
                let mut faults = vec![];
                for k in 0..nb + 2 {
                    faults.push(Fault::Dead(k, Line::Const(0xFF)));
                    faults.push(Fault::Dead(k, Line::Const(0x00)));
                    faults.push(Fault::Dead(k, Line::Garbage(k as u32 * 7 + 1)));
                    for bit in 0..8 {
                        faults.push(Fault::Flip(k, 1 << bit));
                    }
                    for v in [0x00u8, 0x01, 0x04, 0x05, 0x08, 0x09, 0x20, 0x40, 0x7F, 0x80, 0xE5, 0xEB, 0xFC, 0xFD, 0xFE, 0xFF] {
                        faults.push(Fault::Replace(k, v));
                    }
                }
                for t in 0..nt + 1 {
                    faults.push(Fault::FailTxn(t));
                }
                for f in faults {
                    let (v, b, _t, rs) = run(kind, crc, op, f, fresh);
                    runs += 1;
                    maxbytes = maxbytes.max(b);
                    if let Some(v) = v {
                        let fk = match f {
                            Fault::Dead(_, Line::Const(c)) => format!("dead-const-{:02x}", c),
                            Fault::Dead(_, Line::Garbage(_)) => "dead-garbage".to_string(),
                            Fault::Flip(..) => "flip".into(),
                            Fault::Replace(..) => "replace".into(),
                            Fault::FailTxn(..) => "failtxn".into(),
                            Fault::None => "none".into(),
                        };
                        let key = format!("{:?} crc={} {} => {}", op, crc, fk, v);
                        let e = cats.entry(key).or_insert((0, vec![]));
                        e.0 += 1;
                        if e.1.len() < 6 {
                            e.1.push(format!("{:?} {:?} res={}", kind, f, rs));
                        }
                    }
                }
            }
        }
    }
    println!("runs={} max bytes in one call={}", runs, maxbytes);
    for (k, (n, ex)) in &cats {
        println!("[{}] {}", n, k);
        for e in ex {
            println!("      {}", e);
        }
    }
}

#[test]
fn scan_transfers() {
    scan(
        &[Kind::Sd1, Kind::Sdhc],
        &[true, false],
        &[Op::Csd, Op::Read1, Op::ReadN, Op::Write1, Op::WriteN],
        false,
    );
}

#[test]
fn scan_init() {
    scan(&[Kind::Sd1, Kind::Sd2, Kind::Sdhc], &[true, false], &[Op::Init], true);
}

fn do_op(sim: &Rc<RefCell<Sim>>, drv: &Drv, op: Op) -> String {
    let orig: Vec<[u8; 512]> = sim.borrow().card.mem[..64].to_vec();
    let wr = [pattern(1), pattern(2), pattern(3)];
    let b0 = sim.borrow().bytes;
    let r = match op {
        Op::Init | Op::Csd => format!("{:?}", drv.num_blocks()),
        Op::Read1 => {
            let mut b = [Block::new()];
            let r = drv.read(&mut b, BlockIdx(5));
            format!("{:?} data_ok={}", r, b[0].contents == orig[5])
        }
        Op::ReadN => {
            let mut b = [Block::new(), Block::new(), Block::new()];
            let r = drv.read(&mut b, BlockIdx(7));
            format!("{:?} data_ok={}", r, (0..3).all(|i| b[i].contents == orig[7 + i]))
        }
        Op::Write1 => {
            let r = drv.write(&wr[..1], BlockIdx(9));
            format!("{:?} stored={}", r, sim.borrow().card.mem[9] == wr[0].contents)
        }
        Op::WriteN => {
            let r = drv.write(&wr, BlockIdx(20));
            format!("{:?} stored={:?}", r, (0..3).map(|i| sim.borrow().card.mem[20 + i] == wr[i].contents).collect::<Vec<_>>())
        }
    };
    format!("{} [{} bytes, stray {}]", r, sim.borrow().bytes - b0, sim.borrow().card.stray)
}

#[test]
fn card_level() {
    let ops = [Op::Csd, Op::Read1, Op::ReadN, Op::Write1, Op::WriteN];
    for kind in [Kind::Sdhc] {
        for crc in [true] {
            // R1 error bits per command
            for cmd in [9u8, 12, 13, 17, 18, 23, 24, 25, 55] {
                for bits in [0x01u8, 0x02, 0x04, 0x08, 0x10, 0x20, 0x40] {
                    for &op in &ops {
                        let (sim, drv) = setup(kind, crc);
                        drv.num_blocks().unwrap();
                        sim.borrow_mut().card.faults.r1_or = vec![(cmd, bits)];
                        let n0 = sim.borrow().card.cmd_log.len();
                        let r = do_op(&sim, &drv, op);
                        let used = sim.borrow().card.cmd_log[n0..].iter().any(|c| c.0 == cmd);
                        if used && r.starts_with("Ok") {
                            println!("r1_or cmd{} bits {:02x} {:?}: {}", cmd, bits, op, r);
                        }
                    }
                }
            }
            // init-time commands
            for cmd in [0u8, 8, 41, 55, 58, 59] {
                for bits in [0x02u8, 0x04, 0x08, 0x10, 0x20, 0x40] {
                    let (sim, drv) = setup(kind, crc);
                    sim.borrow_mut().card.faults.r1_or = vec![(cmd, bits)];
                    let r = do_op(&sim, &drv, Op::Init);
                    println!("init r1_or cmd{} bits {:02x}: {}", cmd, bits, r);
                }
            }
            for n in 0..3 {
                for tok in [0x0Bu8, 0x0D, 0xEB, 0xED, 0x00, 0xFF, 0x04, 0x15, 0x25, 0x07, 0x01] {
                    for &op in &[Op::Write1, Op::WriteN] {
                        let (sim, drv) = setup(kind, crc);
                        drv.num_blocks().unwrap();
                        sim.borrow_mut().card.faults.data_resp = Some((n, tok));
                        let r = do_op(&sim, &drv, op);
                        if r.starts_with("Ok") && !(n > 0 && op == Op::Write1) {
                            println!("data_resp blk{} tok {:02x} {:?}: {}", n, tok, op, r);
                        }
                    }
                }
                for s2 in [0x01u8, 0x02, 0x04, 0x08, 0x20, 0x80] {
                    for &op in &[Op::Write1, Op::WriteN] {
                        let (sim, drv) = setup(kind, crc);
                        drv.num_blocks().unwrap();
                        sim.borrow_mut().card.faults.prog_fail = Some((n, s2));
                        let r = do_op(&sim, &drv, op);
                        if r.starts_with("Ok") && !(n > 0 && op == Op::Write1) {
                            println!("prog_fail blk{} status {:02x} {:?}: {}", n, s2, op, r);
                        }
                    }
                }
                for tok in 0x00u8..=0x20 {
                    for &op in &[Op::Csd, Op::Read1, Op::ReadN] {
                        let (sim, drv) = setup(kind, crc);
                        drv.num_blocks().unwrap();
                        let base = sim.borrow().card.blocks_tx;
                        sim.borrow_mut().card.faults.err_token = Some((base + n, tok));
                        let r = do_op(&sim, &drv, op);
                        if r.starts_with("Ok") && !(n > 0 && op != Op::ReadN) {
                            println!("err_token blk{} tok {:02x} {:?}: {}", n, tok, op, r);
                        }
                    }
                }
            }
            // busy variants
            for (gap, forever, len) in [(true, false, 3usize), (true, false, 300), (false, true, 3), (false, false, 20_000), (false, false, 60_000)] {
                for &op2 in &ops {
                    let (sim, drv) = setup(kind, crc);
                    drv.num_blocks().unwrap();
                    {
                        let mut s = sim.borrow_mut();
                        s.card.faults.stop_gap = gap;
                        s.card.faults.busy_forever_after_stop = forever;
                        s.card.faults.busy_len = len;
                    }
                    let r1 = do_op(&sim, &drv, Op::WriteN);
                    let r2 = do_op(&sim, &drv, op2);
                    println!("gap={} forever={} busy_len={}: WriteN -> {} ; then {:?} -> {}", gap, forever, len, r1, op2, r2);
                }
                let (sim, drv) = setup(kind, crc);
                drv.num_blocks().unwrap();
                sim.borrow_mut().card.faults.busy_len = len;
                let r1 = do_op(&sim, &drv, Op::Write1);
                let r2 = do_op(&sim, &drv, Op::Read1);
                println!("busy_len={}: Write1 -> {} ; then Read1 -> {}", len, r1, r2);
            }
        }
    }
}
