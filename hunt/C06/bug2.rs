//! C06 bug 2: creating an entry in the end-of-directory slot does not move the
//! end marker, so stale slots behind the old marker come back to life.
//!
//! Statement clauses violated:
//!   "Iterating a directory yields every live entry exactly once ... and
//!    yields no deleted entry, no long-name fragment and nothing past the end
//!    marker."  ...  "before and after any history of create/delete/mkdir"
//!   "Lookup by name and opening a sub-directory succeed exactly for names
//!    that the listing contains"
//!
//! Directory content (FAT32 root, cluster 2): slot 0 = AAA.TXT, slot 1 = 0x00
//! (end marker), slot 2 = stale bytes of a former entry STALE.BIN (cluster 9,
//! 100 bytes), slot 3.. = zeroes. Before anything is created the library
//! (correctly) lists only AAA.TXT and does not find STALE.BIN.
//!
//! Call sequence: open_file_in_dir(root, "NEW.TXT", ReadWriteCreate), close.
//!
//! Expected: the directory now holds exactly AAA.TXT and NEW.TXT. What lay
//! behind the end marker was not part of the directory and one create must
//! not add it.
//! Observed: the listing is AAA.TXT, NEW.TXT, STALE.BIN, and STALE.BIN can be
//! looked up (and opened: it designates cluster 9, which is free in the FAT
//! and will be handed to the next file that needs a cluster).
//!
//! Root cause: src/fat/volume.rs write_new_directory_entry (l.436-453 FAT16,
//! l.500-517 FAT32) treats 0x00 and 0xE5 slots alike ("0x00 or 0xE5
//! represents a free entry"): it overwrites the 0x00 slot and never writes a
//! new 0x00 into the following slot, so the end of the directory silently
//! moves to the next 0x00 byte that happens to be on the disk.
#![allow(unused_imports, dead_code)]

use embedded_sdmmc::{
    Block, BlockCount, BlockDevice, BlockIdx, DirEntry, Mode, RawDirectory, TimeSource, Timestamp,
    VolumeIdx, VolumeManager,
};
use std::cell::RefCell;
use std::collections::HashMap;
use std::rc::Rc;

// ---------------------------------------------------------------------------
// A sparse in-memory block device (unwritten blocks read as zeroes)
// ---------------------------------------------------------------------------
#[derive(Clone)]
struct Disk {
    blocks: Rc<RefCell<HashMap<u32, [u8; 512]>>>,
    n: u32,
}

impl Disk {
    fn new(n: u32) -> Disk {
        Disk {
            blocks: Rc::new(RefCell::new(HashMap::new())),
            n,
        }
    }
    fn get(&self, b: u32) -> [u8; 512] {
        self.blocks.borrow().get(&b).copied().unwrap_or([0u8; 512])
    }
    fn put(&self, b: u32, d: [u8; 512]) {
        self.blocks.borrow_mut().insert(b, d);
    }
    fn poke(&self, b: u32, off: usize, bytes: &[u8]) {
        let mut d = self.get(b);
        d[off..off + bytes.len()].copy_from_slice(bytes);
        self.put(b, d);
    }
}

impl BlockDevice for Disk {
    type Error = ();
    fn read(&self, blocks: &mut [Block], start: BlockIdx) -> Result<(), ()> {
        for (i, b) in blocks.iter_mut().enumerate() {
            let idx = start.0 + i as u32;
            if idx >= self.n {
                return Err(());
            }
            b.contents = self.get(idx);
        }
        Ok(())
    }
    fn write(&self, blocks: &[Block], start: BlockIdx) -> Result<(), ()> {
        for (i, b) in blocks.iter().enumerate() {
            let idx = start.0 + i as u32;
            if idx >= self.n {
                return Err(());
            }
            self.put(idx, b.contents);
        }
        Ok(())
    }
    fn num_blocks(&self) -> Result<BlockCount, ()> {
        Ok(BlockCount(self.n))
    }
}

struct Clock;
impl TimeSource for Clock {
    fn get_timestamp(&self) -> Timestamp {
        Timestamp::from_calendar(2020, 1, 2, 3, 4, 6).unwrap()
    }
}

type VM = VolumeManager<Disk, Clock, 4, 4, 1>;

/// Where the single partition starts
const LBA: u32 = 1;

fn write_mbr(d: &Disk, partition_type: u8, total_blocks: u32) {
    let mut b = [0u8; 512];
    b[446 + 4] = partition_type;
    b[446 + 8..446 + 12].copy_from_slice(&LBA.to_le_bytes());
    b[446 + 12..446 + 16].copy_from_slice(&total_blocks.to_le_bytes());
    b[510] = 0x55;
    b[511] = 0xAA;
    d.put(0, b);
}

/// A 32-byte short directory entry, stamped 2001-02-03 04:05:06
fn ent(name: &[u8; 11], attr: u8, cluster: u32, size: u32) -> [u8; 32] {
    let mut e = [0u8; 32];
    e[0..11].copy_from_slice(name);
    e[11] = attr;
    e[20..22].copy_from_slice(&((cluster >> 16) as u16).to_le_bytes());
    e[26..28].copy_from_slice(&(cluster as u16).to_le_bytes());
    e[28..32].copy_from_slice(&size.to_le_bytes());
    let date: u16 = (21 << 9) | (2 << 5) | 3;
    let time: u16 = (4 << 11) | (5 << 5) | 3;
    e[14..16].copy_from_slice(&time.to_le_bytes());
    e[16..18].copy_from_slice(&date.to_le_bytes());
    e[22..24].copy_from_slice(&time.to_le_bytes());
    e[24..26].copy_from_slice(&date.to_le_bytes());
    e
}

/// Store `e` in slot number `slot` of the directory region starting at `first_block`
fn put_ent(d: &Disk, first_block: u32, slot: usize, e: &[u8; 32]) {
    d.poke(first_block + (slot / 16) as u32, (slot % 16) * 32, e);
}

fn list(vm: &VM, dir: RawDirectory) -> Vec<DirEntry> {
    let mut v = vec![];
    vm.iterate_dir(dir, |de| v.push(de.clone())).unwrap();
    v
}

fn names(l: &[DirEntry]) -> Vec<String> {
    l.iter().map(|e| e.name.to_string()).collect()
}

/// Formats an (empty) FAT32 volume: 32 reserved blocks, 2 FATs, 66000
/// one-block clusters, root directory in cluster 2 (one cluster long).
/// Returns the disk and the absolute block number of the root's cluster.
fn mkfat32() -> (Disk, u32) {
    let clusters = 66000u32;
    let fat_size = (clusters + 2) * 4 / 512 + 1;
    let reserved = 32u32;
    let total = reserved + 2 * fat_size + clusters;
    let d = Disk::new(LBA + total);
    write_mbr(&d, 0x0C, total);
    let mut b = [0u8; 512];
    b[11..13].copy_from_slice(&512u16.to_le_bytes()); // bytes per block
    b[13] = 1; // blocks per cluster
    b[14..16].copy_from_slice(&(reserved as u16).to_le_bytes());
    b[16] = 2; // FATs
    b[21] = 0xF8;
    b[32..36].copy_from_slice(&total.to_le_bytes());
    b[36..40].copy_from_slice(&fat_size.to_le_bytes());
    b[44..48].copy_from_slice(&2u32.to_le_bytes()); // root cluster
    b[48..50].copy_from_slice(&1u16.to_le_bytes()); // info sector
    b[71..82].copy_from_slice(b"           ");
    b[510] = 0x55;
    b[511] = 0xAA;
    d.put(LBA, b);
    let mut i = [0u8; 512];
    i[0..4].copy_from_slice(&0x4161_5252u32.to_le_bytes());
    i[484..488].copy_from_slice(&0x6141_7272u32.to_le_bytes());
    i[488..492].copy_from_slice(&0xFFFF_FFFFu32.to_le_bytes());
    i[492..496].copy_from_slice(&0xFFFF_FFFFu32.to_le_bytes());
    i[508..512].copy_from_slice(&0xAA55_0000u32.to_le_bytes());
    d.put(LBA + 1, i);
    for copy in 0..2 {
        // entries 0, 1 and the root's cluster 2 (end of chain)
        let mut f = [0u8; 12];
        f[0..4].copy_from_slice(&0x0FFF_FFF8u32.to_le_bytes());
        f[4..8].copy_from_slice(&0x0FFF_FFFFu32.to_le_bytes());
        f[8..12].copy_from_slice(&0x0FFF_FFFFu32.to_le_bytes());
        d.poke(LBA + reserved + copy * fat_size, 0, &f);
    }
    let root_block = LBA + reserved + 2 * fat_size;
    (d, root_block)
}

#[test]
fn create_does_not_resurrect_slots_behind_the_end_marker() {
    let (d, root) = mkfat32();
    put_ent(&d, root, 0, &ent(b"AAA     TXT", 0x20, 0, 0));
    // slot 1: 0x00 = end of directory
    put_ent(&d, root, 2, &ent(b"STALE   BIN", 0x20, 9, 100));

    let vm: VM = VolumeManager::new_with_limits(d.clone(), Clock, 100);
    let v = vm.open_raw_volume(VolumeIdx(0)).unwrap();
    let r = vm.open_root_dir(v).unwrap();

    // before: the stale slot is invisible, as it must be
    assert_eq!(names(&list(&vm, r)), ["AAA.TXT"]);
    assert!(vm.find_directory_entry(r, "STALE.BIN").is_err());

    let f = vm
        .open_file_in_dir(r, "NEW.TXT", Mode::ReadWriteCreate)
        .unwrap();
    vm.close_file(f).unwrap();

    // after: one entry more, and nothing else
    let l = names(&list(&vm, r));
    let found = vm.find_directory_entry(r, "STALE.BIN");
    assert!(
        found.is_err(),
        "after creating NEW.TXT a never-created name can be looked up: {:?}",
        found
    );
    assert_eq!(l, ["AAA.TXT", "NEW.TXT"]);
}
