//! C06 bug 3: every entry whose attribute byte has the low four bits set is
//! taken for a long-name fragment, whatever the other attribute bits say.
//!
//! Statement clause violated:
//!   "Iterating a directory yields every live entry exactly once, in on-disk
//!    order, with the name, size, attributes ... stored on disk"
//!   (the only slots it may leave out are deleted ones, long-name fragments
//!    and what lies past the end marker)
//!
//! The FAT specification defines a long-name slot as
//!   (attr & ATTR_LONG_NAME_MASK) == ATTR_LONG_NAME, with
//!   ATTR_LONG_NAME = 0x0F and ATTR_LONG_NAME_MASK = 0x3F
//!   (READ_ONLY|HIDDEN|SYSTEM|VOLUME_ID|DIRECTORY|ARCHIVE).
//! A slot with attributes 0x2F (a read-only/hidden/system volume label with
//! the archive bit) or 0x1F / 0x3F is therefore NOT a long-name fragment: it
//! is a live short entry. The library lists plain volume labels (0x08, 0x28)
//! like any other entry, so these must be listed - and be found - too.
//!
//! Directory content (FAT16 root): AAA.TXT (0x20), BBB.TXT (0x2F),
//! CCC (0x3F, cluster 5), DDD.TXT (0x20), end marker.
//!
//! Expected: four entries listed, in that order; BBB.TXT and CCC are found.
//! Observed: the listing is AAA.TXT, DDD.TXT; lookups give NotFound.
//!
//! Root cause: src/filesystem/attributes.rs:67-69 `Attributes::is_lfn` is
//! `(self.0 & 0x0F) == 0x0F`; it is what src/volume_mgr.rs:422 (iterate_dir),
//! src/fat/ondiskdirentry.rs:75-82 (is_lfn / lfn_contents, used by
//! iterate_dir_lfn) and src/fat/volume.rs:900,1029 (lookup, delete) rely on.
#![allow(unused_imports, dead_code)]

use embedded_sdmmc::{
    Block, BlockCount, BlockDevice, BlockIdx, DirEntry, Mode, RawDirectory, TimeSource, Timestamp,
    VolumeIdx, VolumeManager,
};
use std::cell::RefCell;
use std::collections::HashMap;
use std::rc::Rc;

// ---------------------------------------------------------------------------
// A sparse in-memory block device (unwritten blocks read as zeroes)
// ---------------------------------------------------------------------------
#[derive(Clone)]
struct Disk {
    blocks: Rc<RefCell<HashMap<u32, [u8; 512]>>>,
    n: u32,
}

impl Disk {
    fn new(n: u32) -> Disk {
        Disk {
            blocks: Rc::new(RefCell::new(HashMap::new())),
            n,
        }
    }
    fn get(&self, b: u32) -> [u8; 512] {
        self.blocks.borrow().get(&b).copied().unwrap_or([0u8; 512])
    }
    fn put(&self, b: u32, d: [u8; 512]) {
        self.blocks.borrow_mut().insert(b, d);
    }
    fn poke(&self, b: u32, off: usize, bytes: &[u8]) {
        let mut d = self.get(b);
        d[off..off + bytes.len()].copy_from_slice(bytes);
        self.put(b, d);
    }
}

impl BlockDevice for Disk {
    type Error = ();
    fn read(&self, blocks: &mut [Block], start: BlockIdx) -> Result<(), ()> {
        for (i, b) in blocks.iter_mut().enumerate() {
            let idx = start.0 + i as u32;
            if idx >= self.n {
                return Err(());
            }
            b.contents = self.get(idx);
        }
        Ok(())
    }
    fn write(&self, blocks: &[Block], start: BlockIdx) -> Result<(), ()> {
        for (i, b) in blocks.iter().enumerate() {
            let idx = start.0 + i as u32;
            if idx >= self.n {
                return Err(());
            }
            self.put(idx, b.contents);
        }
        Ok(())
    }
    fn num_blocks(&self) -> Result<BlockCount, ()> {
        Ok(BlockCount(self.n))
    }
}

struct Clock;
impl TimeSource for Clock {
    fn get_timestamp(&self) -> Timestamp {
        Timestamp::from_calendar(2020, 1, 2, 3, 4, 6).unwrap()
    }
}

type VM = VolumeManager<Disk, Clock, 4, 4, 1>;

/// Where the single partition starts
const LBA: u32 = 1;

fn write_mbr(d: &Disk, partition_type: u8, total_blocks: u32) {
    let mut b = [0u8; 512];
    b[446 + 4] = partition_type;
    b[446 + 8..446 + 12].copy_from_slice(&LBA.to_le_bytes());
    b[446 + 12..446 + 16].copy_from_slice(&total_blocks.to_le_bytes());
    b[510] = 0x55;
    b[511] = 0xAA;
    d.put(0, b);
}

/// A 32-byte short directory entry, stamped 2001-02-03 04:05:06
fn ent(name: &[u8; 11], attr: u8, cluster: u32, size: u32) -> [u8; 32] {
    let mut e = [0u8; 32];
    e[0..11].copy_from_slice(name);
    e[11] = attr;
    e[20..22].copy_from_slice(&((cluster >> 16) as u16).to_le_bytes());
    e[26..28].copy_from_slice(&(cluster as u16).to_le_bytes());
    e[28..32].copy_from_slice(&size.to_le_bytes());
    let date: u16 = (21 << 9) | (2 << 5) | 3;
    let time: u16 = (4 << 11) | (5 << 5) | 3;
    e[14..16].copy_from_slice(&time.to_le_bytes());
    e[16..18].copy_from_slice(&date.to_le_bytes());
    e[22..24].copy_from_slice(&time.to_le_bytes());
    e[24..26].copy_from_slice(&date.to_le_bytes());
    e
}

/// Store `e` in slot number `slot` of the directory region starting at `first_block`
fn put_ent(d: &Disk, first_block: u32, slot: usize, e: &[u8; 32]) {
    d.poke(first_block + (slot / 16) as u32, (slot % 16) * 32, e);
}

fn list(vm: &VM, dir: RawDirectory) -> Vec<DirEntry> {
    let mut v = vec![];
    vm.iterate_dir(dir, |de| v.push(de.clone())).unwrap();
    v
}

fn names(l: &[DirEntry]) -> Vec<String> {
    l.iter().map(|e| e.name.to_string()).collect()
}

/// Formats an (empty) FAT16 volume: 1 reserved block, 2 FATs of 20 blocks,
/// a root directory of `root_entries` entries, 5000 one-block clusters.
/// Returns the disk and the absolute block number of the root directory.
fn mkfat16(root_entries: u16) -> (Disk, u32) {
    let clusters = 5000u32;
    let fat_size = 20u32;
    // RootDirSectors = ((BPB_RootEntCnt * 32) + (BPB_BytsPerSec - 1)) / BPB_BytsPerSec
    let root_blocks = (root_entries as u32 * 32 + 511) / 512;
    let total = 1 + 2 * fat_size + root_blocks + clusters;
    let d = Disk::new(LBA + total);
    write_mbr(&d, 0x06, total);
    let mut b = [0u8; 512];
    b[11..13].copy_from_slice(&512u16.to_le_bytes()); // bytes per block
    b[13] = 1; // blocks per cluster
    b[14..16].copy_from_slice(&1u16.to_le_bytes()); // reserved blocks
    b[16] = 2; // FATs
    b[17..19].copy_from_slice(&root_entries.to_le_bytes());
    b[19..21].copy_from_slice(&(total as u16).to_le_bytes());
    b[21] = 0xF8;
    b[22..24].copy_from_slice(&(fat_size as u16).to_le_bytes());
    b[43..54].copy_from_slice(b"           ");
    b[510] = 0x55;
    b[511] = 0xAA;
    d.put(LBA, b);
    for copy in 0..2 {
        d.poke(LBA + 1 + copy * fat_size, 0, &[0xF8, 0xFF, 0xFF, 0xFF]);
    }
    let root_start = LBA + 1 + 2 * fat_size;
    (d, root_start)
}

#[test]
fn short_entries_with_low_attribute_bits_set_are_listed_and_found() {
    let (d, root) = mkfat16(512);
    put_ent(&d, root, 0, &ent(b"AAA     TXT", 0x20, 0, 0));
    put_ent(&d, root, 1, &ent(b"BBB     TXT", 0x2F, 0, 0));
    put_ent(&d, root, 2, &ent(b"CCC        ", 0x3F, 5, 0));
    put_ent(&d, root, 3, &ent(b"DDD     TXT", 0x20, 0, 0));

    let vm: VM = VolumeManager::new_with_limits(d.clone(), Clock, 100);
    let v = vm.open_raw_volume(VolumeIdx(0)).unwrap();
    let r = vm.open_root_dir(v).unwrap();

    let l = names(&list(&vm, r));

    // the long-name aware listing must agree
    let mut storage = [0u8; 64];
    let mut lfn = embedded_sdmmc::LfnBuffer::new(&mut storage);
    let mut l2 = vec![];
    vm.iterate_dir_lfn(r, &mut lfn, |de, _| l2.push(de.name.to_string()))
        .unwrap();

    let b = vm.find_directory_entry(r, "BBB.TXT");
    let c = vm.find_directory_entry(r, "CCC");
    println!("iterate_dir: {:?}\niterate_dir_lfn: {:?}\nBBB.TXT: {:?}\nCCC: {:?}", l, l2, b, c);

    assert_eq!(l, ["AAA.TXT", "BBB.TXT", "CCC", "DDD.TXT"]);
    assert_eq!(l2, ["AAA.TXT", "BBB.TXT", "CCC", "DDD.TXT"]);
    assert!(b.is_ok() && c.is_ok());
}
