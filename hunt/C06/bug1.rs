//! C06 bug 1: the fixed FAT16 root directory is walked to the end of its last
//! *block*, not to the end of its `root_entries_count` entries.
//!
//! Statement clauses violated:
//!   "Iterating a directory yields every live entry exactly once ... and
//!    yields ... nothing past the end"  /  "Lookup by name ... succeed exactly
//!    for names that the listing contains"
//!   Quantified over: "FAT16 fixed-size roots of any size".
//!
//! Geometry: a FAT16 volume whose BPB says root_entries_count = 20. The root
//! region is ((20*32)+511)/512 = 2 blocks, but only the first 20 slots (all
//! of block 0, slots 0..3 of block 1) are the root directory. Slots 4..15 of
//! block 1 are padding that belongs to no directory.
//!
//! The root is completely full (20 live entries, hence no 0x00 end marker)
//! and the padding holds non-zero bytes that look like an entry.
//!
//! Expected: the listing has exactly the 20 entries, GHOST.BIN is not found,
//! and creating a 21st file fails with NotEnoughSpace (the root is full).
//! Observed: the listing has 21 entries (GHOST.BIN, cluster 77, 1234 bytes),
//! lookup finds GHOST.BIN, and a 21st file is created in the padding, where
//! no other FAT implementation will ever see it.
//!
//! Root cause: src/fat/volume.rs iterate_fat16 (l.702-725),
//! find_directory_entry (l.810-830) + find_entry_in_block (l.895),
//! delete_directory_entry (l.931-946) and write_new_directory_entry
//! (l.417-455) turn root_entries_count into a number of *blocks*
//! (BlockCount::from_bytes rounds up) and then visit all 16 slots of every
//! block.
#![allow(unused_imports, dead_code)]

use embedded_sdmmc::{
    Block, BlockCount, BlockDevice, BlockIdx, DirEntry, Mode, RawDirectory, TimeSource, Timestamp,
    VolumeIdx, VolumeManager,
};
use std::cell::RefCell;
use std::collections::HashMap;
use std::rc::Rc;

// ---------------------------------------------------------------------------
// A sparse in-memory block device (unwritten blocks read as zeroes)
// ---------------------------------------------------------------------------
#[derive(Clone)]
struct Disk {
    blocks: Rc<RefCell<HashMap<u32, [u8; 512]>>>,
    n: u32,
}

impl Disk {
    fn new(n: u32) -> Disk {
        Disk {
            blocks: Rc::new(RefCell::new(HashMap::new())),
            n,
        }
    }
    fn get(&self, b: u32) -> [u8; 512] {
        self.blocks.borrow().get(&b).copied().unwrap_or([0u8; 512])
    }
    fn put(&self, b: u32, d: [u8; 512]) {
        self.blocks.borrow_mut().insert(b, d);
    }
    fn poke(&self, b: u32, off: usize, bytes: &[u8]) {
        let mut d = self.get(b);
        d[off..off + bytes.len()].copy_from_slice(bytes);
        self.put(b, d);
    }
}

impl BlockDevice for Disk {
    type Error = ();
    fn read(&self, blocks: &mut [Block], start: BlockIdx) -> Result<(), ()> {
        for (i, b) in blocks.iter_mut().enumerate() {
            let idx = start.0 + i as u32;
            if idx >= self.n {
                return Err(());
            }
            b.contents = self.get(idx);
        }
        Ok(())
    }
    fn write(&self, blocks: &[Block], start: BlockIdx) -> Result<(), ()> {
        for (i, b) in blocks.iter().enumerate() {
            let idx = start.0 + i as u32;
            if idx >= self.n {
                return Err(());
            }
            self.put(idx, b.contents);
        }
        Ok(())
    }
    fn num_blocks(&self) -> Result<BlockCount, ()> {
        Ok(BlockCount(self.n))
    }
}

struct Clock;
impl TimeSource for Clock {
    fn get_timestamp(&self) -> Timestamp {
        Timestamp::from_calendar(2020, 1, 2, 3, 4, 6).unwrap()
    }
}

type VM = VolumeManager<Disk, Clock, 4, 4, 1>;

/// Where the single partition starts
const LBA: u32 = 1;

fn write_mbr(d: &Disk, partition_type: u8, total_blocks: u32) {
    let mut b = [0u8; 512];
    b[446 + 4] = partition_type;
    b[446 + 8..446 + 12].copy_from_slice(&LBA.to_le_bytes());
    b[446 + 12..446 + 16].copy_from_slice(&total_blocks.to_le_bytes());
    b[510] = 0x55;
    b[511] = 0xAA;
    d.put(0, b);
}

/// A 32-byte short directory entry, stamped 2001-02-03 04:05:06
fn ent(name: &[u8; 11], attr: u8, cluster: u32, size: u32) -> [u8; 32] {
    let mut e = [0u8; 32];
    e[0..11].copy_from_slice(name);
    e[11] = attr;
    e[20..22].copy_from_slice(&((cluster >> 16) as u16).to_le_bytes());
    e[26..28].copy_from_slice(&(cluster as u16).to_le_bytes());
    e[28..32].copy_from_slice(&size.to_le_bytes());
    let date: u16 = (21 << 9) | (2 << 5) | 3;
    let time: u16 = (4 << 11) | (5 << 5) | 3;
    e[14..16].copy_from_slice(&time.to_le_bytes());
    e[16..18].copy_from_slice(&date.to_le_bytes());
    e[22..24].copy_from_slice(&time.to_le_bytes());
    e[24..26].copy_from_slice(&date.to_le_bytes());
    e
}

/// Store `e` in slot number `slot` of the directory region starting at `first_block`
fn put_ent(d: &Disk, first_block: u32, slot: usize, e: &[u8; 32]) {
    d.poke(first_block + (slot / 16) as u32, (slot % 16) * 32, e);
}

fn list(vm: &VM, dir: RawDirectory) -> Vec<DirEntry> {
    let mut v = vec![];
    vm.iterate_dir(dir, |de| v.push(de.clone())).unwrap();
    v
}

fn names(l: &[DirEntry]) -> Vec<String> {
    l.iter().map(|e| e.name.to_string()).collect()
}

/// Formats an (empty) FAT16 volume: 1 reserved block, 2 FATs of 20 blocks,
/// a root directory of `root_entries` entries, 5000 one-block clusters.
/// Returns the disk and the absolute block number of the root directory.
fn mkfat16(root_entries: u16) -> (Disk, u32) {
    let clusters = 5000u32;
    let fat_size = 20u32;
    // RootDirSectors = ((BPB_RootEntCnt * 32) + (BPB_BytsPerSec - 1)) / BPB_BytsPerSec
    let root_blocks = (root_entries as u32 * 32 + 511) / 512;
    let total = 1 + 2 * fat_size + root_blocks + clusters;
    let d = Disk::new(LBA + total);
    write_mbr(&d, 0x06, total);
    let mut b = [0u8; 512];
    b[11..13].copy_from_slice(&512u16.to_le_bytes()); // bytes per block
    b[13] = 1; // blocks per cluster
    b[14..16].copy_from_slice(&1u16.to_le_bytes()); // reserved blocks
    b[16] = 2; // FATs
    b[17..19].copy_from_slice(&root_entries.to_le_bytes());
    b[19..21].copy_from_slice(&(total as u16).to_le_bytes());
    b[21] = 0xF8;
    b[22..24].copy_from_slice(&(fat_size as u16).to_le_bytes());
    b[43..54].copy_from_slice(b"           ");
    b[510] = 0x55;
    b[511] = 0xAA;
    d.put(LBA, b);
    for copy in 0..2 {
        d.poke(LBA + 1 + copy * fat_size, 0, &[0xF8, 0xFF, 0xFF, 0xFF]);
    }
    let root_start = LBA + 1 + 2 * fat_size;
    (d, root_start)
}

fn full_root_of_20() -> (Disk, u32) {
    let (d, root) = mkfat16(20);
    for i in 0..20 {
        let n = format!("F{:02}     TXT", i);
        let n: &[u8; 11] = n.as_bytes().try_into().unwrap();
        put_ent(&d, root, i, &ent(n, 0x20, 0, 0));
    }
    (d, root)
}

#[test]
fn fat16_root_listing_and_lookup_stop_at_root_entries_count() {
    let (d, root) = full_root_of_20();
    // slot 20 is past the end of the 20-entry root: padding, not directory
    put_ent(&d, root, 20, &ent(b"GHOST   BIN", 0x20, 77, 1234));

    let vm: VM = VolumeManager::new_with_limits(d.clone(), Clock, 100);
    let v = vm.open_raw_volume(VolumeIdx(0)).unwrap();
    let r = vm.open_root_dir(v).unwrap();

    let l = list(&vm, r);
    let found = vm.find_directory_entry(r, "GHOST.BIN");
    assert!(
        found.is_err(),
        "lookup found an entry beyond the root directory: {:?}",
        found
    );
    assert_eq!(
        l.len(),
        20,
        "a 20-entry root listed {} entries: {:?}",
        l.len(),
        names(&l)
    );
}

#[test]
fn fat16_full_root_refuses_a_new_entry() {
    let (d, root) = full_root_of_20();
    let before = d.get(root + 1);

    let vm: VM = VolumeManager::new_with_limits(d.clone(), Clock, 100);
    let v = vm.open_raw_volume(VolumeIdx(0)).unwrap();
    let r = vm.open_root_dir(v).unwrap();

    let res = vm.open_file_in_dir(r, "NEW.TXT", Mode::ReadWriteCreate);
    let after = d.get(root + 1);
    assert!(
        res.is_err() && before[..] == after[..],
        "all 20 root entries are in use, yet a 21st was created ({:?}); bytes 128..160 of the \
         last root block (slot 20, outside the directory) are now {:02x?}",
        res,
        &after[128..160]
    );
}
