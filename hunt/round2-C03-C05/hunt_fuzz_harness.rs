//! Scratch fuzzer: own mkfs + fsck + random driver. Not part of the deliverable.
#![allow(dead_code)]
#![allow(clippy::all)]

use embedded_sdmmc::{
    Block, BlockCount, BlockDevice, BlockIdx, Error, Mode, RawDirectory, RawFile, RawVolume,
    TimeSource, Timestamp, VolumeIdx, VolumeManager,
};
use std::cell::RefCell;
use std::collections::{BTreeMap, HashMap, HashSet};
use std::rc::Rc;

// ---------------------------------------------------------------- device

#[derive(Default)]
struct DevInner {
    blocks: HashMap<u32, [u8; 512]>,
    num_blocks: u32,
    /// writable ranges (start, end)
    bounds: Vec<(u32, u32)>,
    violations: Vec<String>,
}

#[derive(Clone)]
struct Dev(Rc<RefCell<DevInner>>);

#[derive(Debug)]
enum DevError {
    OutOfBounds(u32),
}

impl Dev {
    fn new(num_blocks: u32) -> Dev {
        Dev(Rc::new(RefCell::new(DevInner {
            num_blocks,
            ..Default::default()
        })))
    }
    fn rd(&self, idx: u32) -> [u8; 512] {
        self.0.borrow().blocks.get(&idx).copied().unwrap_or([0u8; 512])
    }
    fn wr(&self, idx: u32, data: &[u8; 512]) {
        let mut inner = self.0.borrow_mut();
        if data.iter().all(|b| *b == 0) {
            inner.blocks.remove(&idx);
        } else {
            inner.blocks.insert(idx, *data);
        }
    }
    fn patch(&self, idx: u32, off: usize, bytes: &[u8]) {
        let mut b = self.rd(idx);
        b[off..off + bytes.len()].copy_from_slice(bytes);
        self.wr(idx, &b);
    }
    fn read_bytes(&self, start_block: u32, nblocks: u32) -> Vec<u8> {
        let mut v = Vec::with_capacity(nblocks as usize * 512);
        for i in 0..nblocks {
            v.extend_from_slice(&self.rd(start_block + i));
        }
        v
    }
}

impl BlockDevice for Dev {
    type Error = DevError;
    fn read(&self, blocks: &mut [Block], start: BlockIdx) -> Result<(), DevError> {
        let inner = self.0.borrow();
        for (i, b) in blocks.iter_mut().enumerate() {
            let idx = start.0 + i as u32;
            if idx >= inner.num_blocks {
                drop(inner);
                self.0
                    .borrow_mut()
                    .violations
                    .push(format!("read out of device: {}", idx));
                return Err(DevError::OutOfBounds(idx));
            }
            match inner.blocks.get(&idx) {
                Some(d) => b.contents.copy_from_slice(d),
                None => b.contents.fill(0),
            }
        }
        Ok(())
    }
    fn write(&self, blocks: &[Block], start: BlockIdx) -> Result<(), DevError> {
        for (i, b) in blocks.iter().enumerate() {
            let idx = start.0 + i as u32;
            let mut inner = self.0.borrow_mut();
            if idx >= inner.num_blocks {
                inner.violations.push(format!("write out of device: {}", idx));
                return Err(DevError::OutOfBounds(idx));
            }
            if !inner.bounds.iter().any(|(s, e)| idx >= *s && idx < *e) {
                inner
                    .violations
                    .push(format!("write outside any partition: {}", idx));
            }
            if b.contents.iter().all(|x| *x == 0) {
                inner.blocks.remove(&idx);
            } else {
                inner.blocks.insert(idx, b.contents);
            }
        }
        Ok(())
    }
    fn num_blocks(&self) -> Result<BlockCount, DevError> {
        Ok(BlockCount(self.0.borrow().num_blocks))
    }
}

struct Clock;
impl TimeSource for Clock {
    fn get_timestamp(&self) -> Timestamp {
        Timestamp {
            year_since_1970: 33,
            zero_indexed_month: 3,
            zero_indexed_day: 3,
            hours: 13,
            minutes: 30,
            seconds: 4,
        }
    }
}

// ---------------------------------------------------------------- rng

struct Rng(u64);
impl Rng {
    fn next(&mut self) -> u64 {
        self.0 ^= self.0 << 13;
        self.0 ^= self.0 >> 7;
        self.0 ^= self.0 << 17;
        self.0
    }
    fn below(&mut self, n: u32) -> u32 {
        (self.next() % n as u64) as u32
    }
    fn chance(&mut self, pct: u32) -> bool {
        self.below(100) < pct
    }
    fn pick<'a, T>(&mut self, v: &'a [T]) -> &'a T {
        &v[self.below(v.len() as u32) as usize]
    }
}

// ---------------------------------------------------------------- mkfs

#[derive(Clone, Debug)]
struct Geo {
    fat32: bool,
    spc: u32,
    clusters: u32,
    reserved: u32,
    nfats: u32,
    root_entries: u32,
    root_cluster: u32,
    fsinfo: u32,
    fat_extra: u32,
    lba: u32,
    tail: u32,
    // derived
    fatsz: u32,
    root_secs: u32,
    first_data: u32,
    total: u32,
}

impl Geo {
    fn new(fat32: bool, spc: u32, clusters: u32) -> Geo {
        let mut g = Geo {
            fat32,
            spc,
            clusters,
            reserved: if fat32 { 32 } else { 1 },
            nfats: 2,
            root_entries: if fat32 { 0 } else { 512 },
            root_cluster: 2,
            fsinfo: 1,
            fat_extra: 0,
            lba: 2048,
            tail: 0,
            fatsz: 0,
            root_secs: 0,
            first_data: 0,
            total: 0,
        };
        g.derive();
        g
    }
    fn derive(&mut self) {
        let entries = self.clusters + 2;
        let fat_bytes = entries * if self.fat32 { 4 } else { 2 };
        self.fatsz = (fat_bytes + 511) / 512 + self.fat_extra;
        self.root_secs = (self.root_entries * 32 + 511) / 512;
        self.first_data = self.reserved + self.nfats * self.fatsz + self.root_secs;
        self.total = self.first_data + self.clusters * self.spc + self.tail;
    }
    fn bpc(&self) -> u32 {
        self.spc * 512
    }
    fn cluster_block(&self, c: u32) -> u32 {
        self.lba + self.first_data + (c - 2) * self.spc
    }
    fn eoc(&self) -> u32 {
        if self.fat32 {
            0x0FFF_FFFF
        } else {
            0xFFFF
        }
    }
    fn bad(&self) -> u32 {
        if self.fat32 {
            0x0FFF_FFF7
        } else {
            0xFFF7
        }
    }
}

fn put16(b: &mut [u8], off: usize, v: u16) {
    b[off..off + 2].copy_from_slice(&v.to_le_bytes());
}
fn put32(b: &mut [u8], off: usize, v: u32) {
    b[off..off + 4].copy_from_slice(&v.to_le_bytes());
}
fn get16(b: &[u8], off: usize) -> u32 {
    u16::from_le_bytes([b[off], b[off + 1]]) as u32
}
fn get32(b: &[u8], off: usize) -> u32 {
    u32::from_le_bytes([b[off], b[off + 1], b[off + 2], b[off + 3]])
}

fn fat_set(dev: &Dev, g: &Geo, c: u32, v: u32) {
    let (bytes, off) = if g.fat32 { (4usize, c * 4) } else { (2usize, c * 2) };
    for copy in 0..g.nfats {
        let blk = g.lba + g.reserved + copy * g.fatsz + off / 512;
        if g.fat32 {
            dev.patch(blk, (off % 512) as usize, &v.to_le_bytes()[..bytes]);
        } else {
            dev.patch(blk, (off % 512) as usize, &(v as u16).to_le_bytes()[..bytes]);
        }
    }
}

fn dirent(name: &[u8; 11], attr: u8, cluster: u32, size: u32, fat32: bool) -> [u8; 32] {
    let mut e = [0u8; 32];
    e[0..11].copy_from_slice(name);
    e[11] = attr;
    put16(&mut e, 14, 0x6000);
    put16(&mut e, 16, 0x5021);
    put16(&mut e, 18, 0x5021);
    if fat32 {
        put16(&mut e, 20, (cluster >> 16) as u16);
    }
    put16(&mut e, 22, 0x6000);
    put16(&mut e, 24, 0x5021);
    put16(&mut e, 26, cluster as u16);
    put32(&mut e, 28, size);
    e
}

struct Prefill {
    free: Vec<u32>,
    bad: Vec<u32>,
    /// shuffle the fill chain so it is fragmented
    scramble: bool,
    hint: u32,
    free_count: u32,
}

/// Formats partition `g` on `dev`. All clusters not in `free`/`bad` (and not the
/// FAT32 root) are given to up to four FILLn.BIN files in the root directory.
fn mkfs(dev: &Dev, g: &Geo, pre: Option<&Prefill>, rng: &mut Rng) {
    let mut b = [0u8; 512];
    b[0] = 0xEB;
    b[1] = 0x3C;
    b[2] = 0x90;
    b[3..11].copy_from_slice(b"MSWIN4.1");
    put16(&mut b, 11, 512);
    b[13] = g.spc as u8;
    put16(&mut b, 14, g.reserved as u16);
    b[16] = g.nfats as u8;
    put16(&mut b, 17, g.root_entries as u16);
    if !g.fat32 && g.total < 65536 {
        put16(&mut b, 19, g.total as u16);
    } else {
        put32(&mut b, 32, g.total);
    }
    b[21] = 0xF8;
    put16(&mut b, 24, 63);
    put16(&mut b, 26, 255);
    put32(&mut b, 28, g.lba);
    if g.fat32 {
        put32(&mut b, 36, g.fatsz);
        put32(&mut b, 44, g.root_cluster);
        put16(&mut b, 48, g.fsinfo as u16);
        put16(&mut b, 50, if g.reserved > 8 { 6 } else { 0 });
        b[64] = 0x80;
        b[66] = 0x29;
        put32(&mut b, 67, 0x1234_5678);
        b[71..82].copy_from_slice(b"NO NAME    ");
        b[82..90].copy_from_slice(b"FAT32   ");
    } else {
        put16(&mut b, 22, g.fatsz as u16);
        b[36] = 0x80;
        b[38] = 0x29;
        put32(&mut b, 39, 0x1234_5678);
        b[43..54].copy_from_slice(b"NO NAME    ");
        b[54..62].copy_from_slice(b"FAT16   ");
    }
    b[510] = 0x55;
    b[511] = 0xAA;
    dev.wr(g.lba, &b);
    // wipe FATs + root
    for i in g.reserved..g.first_data {
        dev.wr(g.lba + i, &[0u8; 512]);
    }
    if g.fat32 {
        fat_set(dev, g, 0, 0x0FFF_FFF8);
        fat_set(dev, g, 1, 0x0FFF_FFFF);
        fat_set(dev, g, g.root_cluster, 0x0FFF_FFFF);
        for i in 0..g.spc {
            dev.wr(g.cluster_block(g.root_cluster) + i, &[0u8; 512]);
        }
    } else {
        fat_set(dev, g, 0, 0xFFF8);
        fat_set(dev, g, 1, 0xFFFF);
    }
    let mut used = 0u32;
    if let Some(pre) = pre {
        let free: HashSet<u32> = pre.free.iter().copied().collect();
        let bad: HashSet<u32> = pre.bad.iter().copied().collect();
        for c in &pre.bad {
            fat_set(dev, g, *c, g.bad());
        }
        let mut fill: Vec<u32> = (2..g.clusters + 2)
            .filter(|c| !free.contains(c) && !bad.contains(c) && !(g.fat32 && *c == g.root_cluster))
            .collect();
        if pre.scramble {
            // swap a number of random pairs: fragmented but cheap
            let n = fill.len();
            if n > 2 {
                for _ in 0..(n / 4).max(8) {
                    let a = rng.below(n as u32) as usize;
                    let b2 = rng.below(n as u32) as usize;
                    fill.swap(a, b2);
                }
            }
        }
        // faster FAT writing: build in memory
        let mut fat: HashMap<u32, u32> = HashMap::new();
        let max_per_file = ((0xFFFF_FFFFu64) / g.bpc() as u64) as usize;
        let parts = if g.fat32 { 4usize } else { (g.root_entries as usize).saturating_sub(1).clamp(1, 4) };
        let per = ((fill.len() + parts - 1) / parts).max(1).min(max_per_file);
        let mut root_entries: Vec<[u8; 32]> = Vec::new();
        for (n, chunk) in fill.chunks(per).enumerate() {
            if n >= 16 {
                panic!("too many fill files");
            }
            for w in chunk.windows(2) {
                fat.insert(w[0], w[1]);
            }
            let eoc = if g.fat32 {
                *rng.pick(&[0x0FFF_FFFFu32, 0x0FFF_FFF8, 0x0FFF_FFFE])
            } else {
                *rng.pick(&[0xFFFFu32, 0xFFF8, 0xFFFE])
            };
            fat.insert(*chunk.last().unwrap(), eoc);
            let mut name = *b"FILL0   BIN";
            name[4] = b"0123456789ABCDEF"[n];
            let size = (chunk.len() as u64 * g.bpc() as u64 - rng.below(g.bpc()) as u64) as u32;
            root_entries.push(dirent(&name, 0x20, chunk[0], size, g.fat32));
            used += chunk.len() as u32;
        }
        if g.fat32 && pre.scramble {
            // reserved top nibble: must be ignored on read and preserved on write
            for _ in 0..64 {
                let c = 2 + rng.below(g.clusters);
                let v = fat.get(&c).copied().unwrap_or(if bad.contains(&c) { g.bad() } else if c == g.root_cluster { 0x0FFF_FFFF } else { 0 });
                fat.insert(c, v | ((1 + rng.below(15)) << 28));
            }
            for c in &pre.free {
                if rng.chance(50) {
                    fat.insert(*c, (1 + rng.below(15)) << 28);
                }
            }
        }
        // write FAT sectors
        let per_sec = if g.fat32 { 128 } else { 256 };
        let mut by_sector: BTreeMap<u32, Vec<(u32, u32)>> = BTreeMap::new();
        for (c, v) in fat {
            by_sector.entry(c / per_sec).or_default().push((c, v));
        }
        for (sec, items) in by_sector {
            let mut blk = dev.rd(g.lba + g.reserved + sec);
            for (c, v) in items {
                if g.fat32 {
                    put32(&mut blk, ((c % per_sec) * 4) as usize, v);
                } else {
                    put16(&mut blk, ((c % per_sec) * 2) as usize, v as u16);
                }
            }
            for copy in 0..g.nfats {
                dev.wr(g.lba + g.reserved + copy * g.fatsz + sec, &blk);
            }
        }
        // root entries
        let root_blk = if g.fat32 {
            g.cluster_block(g.root_cluster)
        } else {
            g.lba + g.reserved + g.nfats * g.fatsz
        };
        for (i, e) in root_entries.iter().enumerate() {
            dev.patch(root_blk + (i as u32 * 32) / 512, (i * 32) % 512, e);
        }
    }
    if g.fat32 {
        let mut f = [0u8; 512];
        put32(&mut f, 0, 0x4161_5252);
        put32(&mut f, 484, 0x6141_7272);
        let (fc, hint) = match pre {
            Some(p) => (p.free_count, p.hint),
            None => (g.clusters - 1 - used, 0xFFFF_FFFF),
        };
        put32(&mut f, 488, fc);
        put32(&mut f, 492, hint);
        put32(&mut f, 508, 0xAA55_0000);
        dev.wr(g.lba + g.fsinfo, &f);
    }
}

fn write_mbr(dev: &Dev, parts: &[&Geo]) {
    let mut b = [0u8; 512];
    for (i, g) in parts.iter().enumerate() {
        let o = 446 + i * 16;
        b[o + 4] = if g.fat32 { 0x0C } else { 0x06 };
        put32(&mut b, o + 8, g.lba);
        put32(&mut b, o + 12, g.total);
    }
    b[510] = 0x55;
    b[511] = 0xAA;
    dev.wr(0, &b);
    let mut inner = dev.0.borrow_mut();
    inner.bounds = parts.iter().map(|g| (g.lba, g.lba + g.total)).collect();
}

// ---------------------------------------------------------------- fsck

#[derive(Debug, Clone)]
struct Node {
    is_dir: bool,
    first: u32,
    size: u32,
    chain: Vec<u32>,
    /// for dirs: number of free slots (0xE5 or 0x00) in the directory
    free_slots: u32,
    attr: u8,
}

#[derive(Debug, Default)]
struct Report {
    nodes: BTreeMap<String, Node>,
    free: u32,
    orphans: Vec<u32>,
    orphan_heads: u32,
    errors: Vec<String>,
    fat: Vec<u32>,
}

fn upcase(b: u8) -> u8 {
    match b {
        b'a'..=b'z' => b - 32,
        0xE0..=0xF6 | 0xF8..=0xFE => b - 32,
        _ => b,
    }
}

fn name_str(n: &[u8]) -> String {
    let base: Vec<u8> = n[0..8].iter().copied().take_while(|b| *b != b' ').collect();
    let ext: Vec<u8> = n[8..11].iter().copied().take_while(|b| *b != b' ').collect();
    let mut s = String::new();
    for b in base {
        s.push(b as char);
    }
    if !ext.is_empty() {
        s.push('.');
        for b in ext {
            s.push(b as char);
        }
    }
    s
}

fn fsck(dev: &Dev, lba: u32, bad_expected: &[u32]) -> Report {
    let mut rep = Report::default();
    let b = dev.rd(lba);
    if b[510] != 0x55 || b[511] != 0xAA || get16(&b, 11) != 512 {
        rep.errors.push("boot sector damaged".into());
        return rep;
    }
    let spc = b[13] as u32;
    let reserved = get16(&b, 14);
    let nfats = b[16] as u32;
    let root_entries = get16(&b, 17);
    let total = if get16(&b, 19) != 0 { get16(&b, 19) } else { get32(&b, 32) };
    let fatsz = if get16(&b, 22) != 0 { get16(&b, 22) } else { get32(&b, 36) };
    let root_secs = (root_entries * 32 + 511) / 512;
    let first_data = reserved + nfats * fatsz + root_secs;
    let clusters = (total - first_data) / spc;
    let fat32 = clusters >= 65525;
    let root_cluster = if fat32 { get32(&b, 44) } else { 0 };
    let bpc = spc * 512;
    let entries = clusters + 2;
    // FAT
    let fat_bytes = dev.read_bytes(lba + reserved, fatsz);
    for copy in 1..nfats {
        let other = dev.read_bytes(lba + reserved + copy * fatsz, fatsz);
        if other != fat_bytes {
            rep.errors.push(format!("FAT copy {} differs from copy 0", copy));
        }
    }
    let nslots = if fat32 { fatsz * 128 } else { fatsz * 256 };
    let mut fat = Vec::with_capacity(entries as usize);
    for c in 0..nslots {
        let v = if fat32 {
            get32(&fat_bytes, c as usize * 4) & 0x0FFF_FFFF
        } else {
            get16(&fat_bytes, c as usize * 2)
        };
        if c < entries {
            fat.push(v);
        } else if v != 0 {
            rep.errors.push(format!("FAT slack entry {} = {:x}", c, v));
        }
    }
    let (eoc_min, badv) = if fat32 { (0x0FFF_FFF8, 0x0FFF_FFF7) } else { (0xFFF8, 0xFFF7) };
    if fat[0] != (if fat32 { 0x0FFF_FFF8 } else { 0xFFF8 }) || fat[1] < eoc_min {
        rep.errors.push(format!("FAT[0]/[1] changed: {:x} {:x}", fat[0], fat[1]));
    }
    let badset: HashSet<u32> = bad_expected.iter().copied().collect();
    for c in 2..entries {
        let isbad = fat[c as usize] == badv;
        if isbad != badset.contains(&c) {
            rep.errors.push(format!(
                "bad-cluster mark mismatch at {}: fat={:x}",
                c, fat[c as usize]
            ));
        }
    }
    let mut owner: Vec<u32> = vec![0; entries as usize];
    let mut next_id = 1u32;
    let mut errors: Vec<String> = Vec::new();

    let mut walk = |start: u32, what: &str, owner: &mut Vec<u32>, errors: &mut Vec<String>| -> Vec<u32> {
        let id = next_id;
        next_id += 1;
        let mut chain = Vec::new();
        let mut c = start;
        loop {
            if c < 2 || c >= entries {
                errors.push(format!("{}: chain reaches out-of-range cluster {:x} (after {} clusters)", what, c, chain.len()));
                break;
            }
            if owner[c as usize] == id {
                errors.push(format!("{}: chain is cyclic at cluster {}", what, c));
                break;
            }
            if owner[c as usize] != 0 {
                errors.push(format!("{}: cluster {} is shared with another chain", what, c));
                break;
            }
            let v = fat[c as usize];
            if v == 0 {
                errors.push(format!("{}: chain passes through FREE entry at cluster {}", what, c));
                break;
            }
            if v == badv {
                errors.push(format!("{}: chain passes through BAD entry at cluster {}", what, c));
                break;
            }
            owner[c as usize] = id;
            chain.push(c);
            if v >= eoc_min {
                break;
            }
            if v == 1 || (v >= entries) {
                errors.push(format!("{}: chain has reserved/out-of-range link {:x} at cluster {}", what, v, c));
                break;
            }
            c = v;
        }
        chain
    };

    // directory walk
    // stack of (path, first cluster (0 = fat16 root), parent cluster for dotdot)
    let mut stack: Vec<(String, u32, u32, bool)> = vec![("".to_string(), root_cluster, 0, true)];
    let mut root_chain = Vec::new();
    if fat32 {
        root_chain = walk(root_cluster, "root dir", &mut owner, &mut errors);
    }
    while let Some((path, first, parent, is_root)) = stack.pop() {
        let data: Vec<u8> = if is_root && !fat32 {
            let mut d = dev.read_bytes(lba + reserved + nfats * fatsz, root_secs);
            d.truncate(root_entries as usize * 32);
            d
        } else {
            let chain = if is_root {
                root_chain.clone()
            } else {
                rep.nodes.get(&path).map(|n| n.chain.clone()).unwrap_or_default()
            };
            let mut d = Vec::new();
            for c in chain {
                d.extend_from_slice(&dev.read_bytes(lba + first_data + (c - 2) * spc, spc));
            }
            d
        };
        let mut seen_end = false;
        let mut names: HashSet<Vec<u8>> = HashSet::new();
        let mut free_slots = 0u32;
        let mut live_index = 0usize;
        for (i, e) in data.chunks_exact(32).enumerate() {
            if seen_end {
                if e[0] != 0 {
                    errors.push(format!("dir '{}': slot {} follows the end-of-directory marker but is not empty (first byte {:02x})", path, i, e[0]));
                    break;
                }
                free_slots += 1;
                continue;
            }
            if e[0] == 0 {
                seen_end = true;
                free_slots += 1;
                continue;
            }
            if e[0] == 0xE5 {
                free_slots += 1;
                continue;
            }
            let attr = e[11];
            if attr & 0x3F == 0x0F {
                continue;
            }
            if attr & 0x08 != 0 {
                continue;
            }
            let name = &e[0..11];
            let cl = if fat32 { (get16(e, 20) << 16) | get16(e, 26) } else { get16(e, 26) };
            if !fat32 && get16(e, 20) != 0 {
                errors.push(format!("dir '{}': entry {} has a non-zero high cluster word on FAT16", path, name_str(name)));
            }
            let size = get32(e, 28);
            let idx = live_index;
            live_index += 1;
            if name == b".          " || name == b"..         " {
                if is_root {
                    errors.push(format!("root dir has a dot entry at slot {}", i));
                    continue;
                }
                let isdot = name[1] == b' ';
                if (isdot && idx != 0) || (!isdot && idx != 1) {
                    errors.push(format!("dir '{}': dot entry at wrong position {}", path, idx));
                }
                let want = if isdot { first } else { parent };
                if cl != want || attr & 0x10 == 0 {
                    errors.push(format!("dir '{}': {} entry has cluster {} attr {:02x}, expected cluster {}", path, name_str(name), cl, attr, want));
                }
                continue;
            }
            if !is_root && idx < 2 {
                errors.push(format!("dir '{}': first two entries are not . and ..", path));
            }
            let key: Vec<u8> = name.iter().map(|b| upcase(*b)).collect();
            if !names.insert(key) {
                errors.push(format!("dir '{}': duplicate name {}", path, name_str(name)));
                continue;
            }
            let child = format!("{}/{}", path, name_str(name));
            let is_dir = attr & 0x10 != 0;
            let chain = if cl == 0 {
                if is_dir {
                    errors.push(format!("{}: directory without cluster", child));
                }
                if size != 0 {
                    errors.push(format!("{}: size {} but no cluster", child, size));
                }
                Vec::new()
            } else {
                walk(cl, &child, &mut owner, &mut errors)
            };
            if !is_dir && (chain.len() as u64 * bpc as u64) < size as u64 {
                errors.push(format!("{}: chain of {} clusters too short for size {}", child, chain.len(), size));
            }
            if is_dir && size != 0 {
                errors.push(format!("{}: directory with size {}", child, size));
            }
            rep.nodes.insert(
                child.clone(),
                Node { is_dir, first: cl, size, chain, free_slots: 0, attr },
            );
            if is_dir && cl != 0 {
                let my_parent_val = if is_root { 0 } else { first };
                stack.push((child, cl, my_parent_val, false));
            }
        }
        if !is_root && live_index < 2 {
            errors.push(format!("dir '{}': missing dot entries", path));
        }
        if is_root {
            rep.nodes.insert(
                "/".into(),
                Node { is_dir: true, first, size: 0, chain: root_chain.clone(), free_slots, attr: 0x10 },
            );
        } else if let Some(n) = rep.nodes.get_mut(&path) {
            n.free_slots = free_slots;
        }
    }
    // orphans
    for c in 2..entries {
        let v = fat[c as usize];
        if v == 0 {
            rep.free += 1;
        } else if v != badv && owner[c as usize] == 0 {
            rep.orphans.push(c);
        }
    }
    let orphan_set: HashSet<u32> = rep.orphans.iter().copied().collect();
    let mut pointed: HashSet<u32> = HashSet::new();
    for c in &rep.orphans {
        let v = fat[*c as usize];
        if v < eoc_min {
            if !orphan_set.contains(&v) {
                errors.push(format!("orphan cluster {} links to {:x} which is not an orphan", c, v));
            }
            if !pointed.insert(v) {
                errors.push(format!("orphan cluster {} pointed to twice", v));
            }
        }
    }
    rep.orphan_heads = rep.orphans.iter().filter(|c| !pointed.contains(c)).count() as u32;
    rep.errors.extend(errors);
    rep.fat = fat;
    rep
}

fn read_chain_bytes(dev: &Dev, g: &Geo, chain: &[u32], size: u32) -> Vec<u8> {
    let mut out = Vec::new();
    for c in chain {
        if out.len() >= size as usize {
            break;
        }
        out.extend_from_slice(&dev.read_bytes(g.cluster_block(*c), g.spc));
    }
    out.truncate(size as usize);
    out
}

// ---------------------------------------------------------------- model + driver

type VM = VolumeManager<Dev, Clock, 8, 8, 2>;

#[derive(Clone, Debug)]
struct MFile {
    content: Vec<u8>,
    ncl: u32,
}

struct OpenFile {
    raw: RawFile,
    vol: usize,
    path: String,
    offset: usize,
    writable: bool,
    /// was the on-disk entry written with the current first cluster?
    flushed: bool,
    dirty: bool,
}

struct OpenDir {
    raw: RawDirectory,
    vol: usize,
    path: String, // "" for root
}

struct VolState {
    geo: Geo,
    bad: Vec<u32>,
    raw: Option<RawVolume>,
    files: BTreeMap<String, MFile>,
    dirs: HashSet<String>, // "" root
    /// files that exist on disk but that we do not track contents for (FILLn)
    foreign: HashSet<String>,
}

struct Fuzz {
    dev: Dev,
    vm: Option<VM>,
    vols: Vec<VolState>,
    ofiles: Vec<OpenFile>,
    odirs: Vec<OpenDir>,
    rng: Rng,
    log: Vec<String>,
    verbose: bool,
}

const NAMES: &[&str] = &[
    "A", "a", "B.TXT", "b.txt", "C", "D1", "D2", "d1", "LONGNAME.EXT", "\u{e9}.x", "\u{c9}.X",
    "X.Y", "Z",
];

fn canon(name: &str) -> String {
    // the on-disk (upper-cased latin-1) form as fsck prints it
    name.chars()
        .map(|c| {
            let b = c as u32 as u8;
            upcase(b) as char
        })
        .collect()
}

impl Fuzz {
    fn vm(&self) -> &VM {
        self.vm.as_ref().unwrap()
    }

    fn mount(&mut self) {
        let vm: VM = VolumeManager::new_with_limits(self.dev.clone(), Clock, 100);
        for (i, v) in self.vols.iter_mut().enumerate() {
            let raw = vm.open_raw_volume(VolumeIdx(i)).expect("open volume");
            v.raw = Some(raw);
        }
        self.vm = Some(vm);
    }

    fn unmount(&mut self) -> Result<(), String> {
        while let Some(f) = self.ofiles.pop() {
            self.vm().close_file(f.raw).map_err(|e| format!("close_file: {:?}", e))?;
        }
        while let Some(d) = self.odirs.pop() {
            self.vm().close_dir(d.raw).map_err(|e| format!("close_dir: {:?}", e))?;
        }
        for v in self.vols.iter_mut() {
            if let Some(raw) = v.raw.take() {
                self.vm
                    .as_ref()
                    .unwrap()
                    .close_volume(raw)
                    .map_err(|e| format!("close_volume: {:?}", e))?;
            }
        }
        self.vm = None;
        Ok(())
    }

    fn check(&mut self, what: &str) -> Result<Vec<Report>, String> {
        let mut reps = Vec::new();
        {
            let v = &self.dev.0.borrow().violations;
            if !v.is_empty() {
                return Err(format!("after {}: device violations {:?}", what, v));
            }
        }
        for (vi, v) in self.vols.iter().enumerate() {
            let rep = fsck(&self.dev, v.geo.lba, &v.bad);
            if !rep.errors.is_empty() {
                return Err(format!("after {}: vol {} fsck: {:#?}", what, vi, rep.errors));
            }
            // orphans
            let pending = self
                .ofiles
                .iter()
                .filter(|f| f.vol == vi && !f.flushed)
                .count() as u32;
            if rep.orphan_heads > pending {
                return Err(format!(
                    "after {}: vol {}: {} orphan chains ({} clusters: {:?}) but only {} open files with unflushed first cluster",
                    what, vi, rep.orphan_heads, rep.orphans.len(), &rep.orphans[..rep.orphans.len().min(10)], pending
                ));
            }
            // tree vs model
            let mut want: HashSet<String> = HashSet::new();
            for d in &v.dirs {
                if !d.is_empty() {
                    want.insert(d.clone());
                }
            }
            for f in v.files.keys() {
                want.insert(f.clone());
            }
            for f in &v.foreign {
                want.insert(f.clone());
            }
            for (p, n) in &rep.nodes {
                if p == "/" {
                    continue;
                }
                if !want.contains(p) {
                    return Err(format!("after {}: vol {}: unexpected entry on disk {}", what, vi, p));
                }
                if n.is_dir != v.dirs.contains(p) {
                    return Err(format!("after {}: vol {}: {} dir/file confusion", what, vi, p));
                }
            }
            for p in &want {
                if !rep.nodes.contains_key(p) {
                    return Err(format!("after {}: vol {}: {} missing on disk", what, vi, p));
                }
            }
            // closed (or flushed+clean) files: content equal
            for (p, mf) in &v.files {
                let open = self.ofiles.iter().find(|f| f.vol == vi && &f.path == p);
                if let Some(of) = open {
                    if of.dirty {
                        continue;
                    }
                }
                let n = &rep.nodes[p];
                if n.size as usize != mf.content.len() {
                    return Err(format!(
                        "after {}: vol {}: {} size on disk {} model {}",
                        what,
                        vi,
                        p,
                        n.size,
                        mf.content.len()
                    ));
                }
                if n.chain.len() as u32 != mf.ncl {
                    return Err(format!(
                        "after {}: vol {}: {} chain length on disk {} model {} (size {})",
                        what,
                        vi,
                        p,
                        n.chain.len(),
                        mf.ncl,
                        n.size
                    ));
                }
                let got = read_chain_bytes(&self.dev, &v.geo, &n.chain, n.size);
                if got != mf.content {
                    let pos = got.iter().zip(mf.content.iter()).position(|(a, b)| a != b);
                    return Err(format!("after {}: vol {}: {} content differs at {:?}", what, vi, p, pos));
                }
            }
            reps.push(rep);
        }
        Ok(reps)
    }

    fn say(&mut self, s: String) {
        if self.verbose {
            println!("{}", s);
        }
        self.log.push(s);
    }

    fn pick_dir(&mut self) -> Option<usize> {
        if self.odirs.is_empty() {
            None
        } else {
            Some(self.rng.below(self.odirs.len() as u32) as usize)
        }
    }

    /// a name for use in directory `ppath` of volume `vi`: often one that exists there
    fn pick_name_in(&mut self, vi: usize, ppath: &str, want_dir: Option<bool>) -> String {
        if self.rng.chance(55) {
            let prefix = format!("{}/", ppath);
            let mut c: Vec<String> = Vec::new();
            if want_dir != Some(false) {
                for d in &self.vols[vi].dirs {
                    if d.starts_with(&prefix) && !d[prefix.len()..].contains('/') {
                        c.push(d[prefix.len()..].to_string());
                    }
                }
            }
            if want_dir != Some(true) {
                for d in self.vols[vi].files.keys() {
                    if d.starts_with(&prefix) && !d[prefix.len()..].contains('/') {
                        c.push(d[prefix.len()..].to_string());
                    }
                }
            }
            if !c.is_empty() {
                c.sort();
                let n = self.rng.pick(&c).clone();
                // sometimes in lower case
                if self.rng.chance(30) {
                    return n.to_lowercase();
                }
                return n;
            }
        }
        self.pick_name()
    }

    fn pick_name(&mut self) -> String {
        if self.rng.chance(15) {
            format!("N{}", self.rng.below(400))
        } else {
            (*self.rng.pick(NAMES)).to_string()
        }
    }

    fn step(&mut self, reps: &[Report]) -> Result<String, String> {
        let op = self.rng.below(100);
        let nvol = self.vols.len();
        match op {
            0..=5 => {
                // open root dir
                if self.odirs.len() >= 7 {
                    return Ok("skip".into());
                }
                let vi = self.rng.below(nvol as u32) as usize;
                let raw = self.vols[vi].raw.unwrap();
                let d = self.vm().open_root_dir(raw).map_err(|e| format!("open_root_dir {:?}", e))?;
                self.odirs.push(OpenDir { raw: d, vol: vi, path: "".into() });
                Ok(format!("open_root_dir v{}", vi))
            }
            6..=13 => {
                // open sub dir / dotdot / dot
                let Some(di) = self.pick_dir() else { return Ok("skip".into()) };
                if self.odirs.len() >= 8 {
                    let d = self.odirs.swap_remove(di);
                    self.vm().close_dir(d.raw).map_err(|e| format!("close_dir {:?}", e))?;
                    return Ok(format!("close_dir '{}'", d.path));
                }
                let (vi, ppath, praw) = {
                    let d = &self.odirs[di];
                    (d.vol, d.path.clone(), d.raw)
                };
                let name = match self.rng.below(10) {
                    0 => ".".to_string(),
                    1 | 2 => "..".to_string(),
                    _ => self.pick_name_in(vi, &ppath, Some(true)),
                };
                let res = self.vm().open_dir(praw, name.as_str());
                let target = if name == "." {
                    Some(ppath.clone())
                } else if name == ".." {
                    if ppath.is_empty() {
                        None
                    } else {
                        Some(ppath[..ppath.rfind('/').unwrap()].to_string())
                    }
                } else {
                    let p = format!("{}/{}", ppath, canon(&name));
                    if self.vols[vi].dirs.contains(&p) {
                        Some(p)
                    } else {
                        None
                    }
                };
                let desc = format!("open_dir v{} '{}' '{}' -> {:?}", vi, ppath, name, res.as_ref().map(|_| ()));
                match (res, target) {
                    (Ok(raw), Some(p)) => {
                        self.odirs.push(OpenDir { raw, vol: vi, path: p });
                    }
                    (Err(_), None) => {}
                    (Ok(_), None) => return Err(format!("{}: opened a directory that should not exist", desc)),
                    (Err(e), Some(_)) => return Err(format!("{}: failed {:?}", desc, e)),
                }
                Ok(desc)
            }
            14..=17 => {
                let Some(di) = self.pick_dir() else { return Ok("skip".into()) };
                let d = self.odirs.swap_remove(di);
                self.vm().close_dir(d.raw).map_err(|e| format!("close_dir {:?}", e))?;
                Ok(format!("close_dir '{}'", d.path))
            }
            18..=27 => {
                // mkdir
                let Some(di) = self.pick_dir() else { return Ok("skip".into()) };
                let name = self.pick_name();
                let (vi, ppath, praw) = {
                    let d = &self.odirs[di];
                    (d.vol, d.path.clone(), d.raw)
                };
                let p = format!("{}/{}", ppath, canon(&name));
                let exists = self.vols[vi].dirs.contains(&p)
                    || self.vols[vi].files.contains_key(&p)
                    || self.vols[vi].foreign.contains(&p);
                let rep = &reps[vi];
                let pkey = if ppath.is_empty() { "/".to_string() } else { ppath.clone() };
                let pnode = &rep.nodes[&pkey];
                let growable = !(ppath.is_empty() && !self.vols[vi].geo.fat32);
                let need = if pnode.free_slots > 0 { Some(1) } else if growable { Some(2) } else { None };
                let free_before = rep.free;
                let res = self.vm().make_dir_in_dir(praw, name.as_str());
                let desc = format!(
                    "mkdir v{} '{}' '{}' (free {}, parent free slots {}) -> {:?}",
                    vi, ppath, name, free_before, pnode.free_slots, res
                );
                match res {
                    Ok(()) => {
                        if exists {
                            return Err(format!("{}: succeeded although name exists", desc));
                        }
                        if need.map(|n| n > free_before).unwrap_or(true) {
                            return Err(format!("{}: success when not enough room", desc));
                        }
                        self.vols[vi].dirs.insert(p);
                    }
                    Err(Error::DirAlreadyExists) | Err(Error::FileAlreadyExists) => {
                        if !exists {
                            return Err(format!("{}: reported existing but model says no", desc));
                        }
                    }
                    Err(Error::NotEnoughSpace) => {
                        if exists {
                            return Err(format!("{}: out-of-space instead of exists", desc));
                        }
                        if need.map(|n| n <= free_before).unwrap_or(false) {
                            return Err(format!("{}: FALSE disk-full (need {:?})", desc, need));
                        }
                    }
                    Err(e) => return Err(format!("{}: unexpected error {:?}", desc, e)),
                }
                Ok(desc)
            }
            28..=47 => {
                // open file
                let Some(di) = self.pick_dir() else { return Ok("skip".into()) };
                if self.ofiles.len() >= 8 {
                    return Ok("skip".into());
                }
                let (vi0, pp0) = (self.odirs[di].vol, self.odirs[di].path.clone());
                let name = if self.rng.chance(3) { "FILL0.BIN".to_string() } else { self.pick_name_in(vi0, &pp0, None) };
                let mode = *self.rng.pick(&[
                    Mode::ReadOnly,
                    Mode::ReadWriteAppend,
                    Mode::ReadWriteTruncate,
                    Mode::ReadWriteCreate,
                    Mode::ReadWriteCreate,
                    Mode::ReadWriteCreateOrTruncate,
                    Mode::ReadWriteCreateOrTruncate,
                    Mode::ReadWriteCreateOrAppend,
                    Mode::ReadWriteCreateOrAppend,
                ]);
                let (vi, ppath, praw) = {
                    let d = &self.odirs[di];
                    (d.vol, d.path.clone(), d.raw)
                };
                let p = format!("{}/{}", ppath, canon(&name));
                let is_dir = self.vols[vi].dirs.contains(&p);
                let is_foreign = self.vols[vi].foreign.contains(&p);
                if is_foreign && mode != Mode::ReadOnly && mode != Mode::ReadWriteCreate {
                    return Ok("skip".into());
                }
                let is_file = self.vols[vi].files.contains_key(&p) || is_foreign;
                let already_open = self.ofiles.iter().any(|f| f.vol == vi && f.path == p);
                let rep = &reps[vi];
                let pkey = if ppath.is_empty() { "/".to_string() } else { ppath.clone() };
                let pnode = &rep.nodes[&pkey];
                let growable = !(ppath.is_empty() && !self.vols[vi].geo.fat32);
                let free_before = rep.free;
                let can_create = pnode.free_slots > 0 || (growable && free_before >= 1);
                let res = self.vm().open_file_in_dir(praw, name.as_str(), mode);
                let desc = format!(
                    "open_file v{} '{}' '{}' {:?} (free {}, slots {}) -> {:?}",
                    vi, ppath, name, mode, free_before, pnode.free_slots, res
                );
                let creating = matches!(
                    mode,
                    Mode::ReadWriteCreate | Mode::ReadWriteCreateOrTruncate | Mode::ReadWriteCreateOrAppend
                );
                match res {
                    Ok(raw) => {
                        if is_dir {
                            return Err(format!("{}: opened a directory as a file", desc));
                        }
                        if already_open {
                            return Err(format!("{}: opened twice", desc));
                        }
                        if is_file {
                            if mode == Mode::ReadWriteCreate {
                                return Err(format!("{}: create of existing succeeded", desc));
                            }
                            let trunc = matches!(mode, Mode::ReadWriteTruncate | Mode::ReadWriteCreateOrTruncate);
                            let append = matches!(mode, Mode::ReadWriteAppend | Mode::ReadWriteCreateOrAppend);
                            let mut offset = 0;
                            if !is_foreign {
                                let mf = self.vols[vi].files.get_mut(&p).unwrap();
                                if trunc {
                                    mf.content.clear();
                                    mf.ncl = mf.ncl.min(1);
                                }
                                if append {
                                    offset = mf.content.len();
                                }
                            }
                            self.ofiles.push(OpenFile {
                                raw,
                                vol: vi,
                                path: p,
                                offset,
                                writable: mode != Mode::ReadOnly,
                                flushed: true,
                                dirty: false,
                            });
                        } else {
                            if !creating {
                                return Err(format!("{}: opened a non-existing file", desc));
                            }
                            if !can_create {
                                return Err(format!("{}: created although no room in directory", desc));
                            }
                            self.vols[vi].files.insert(p.clone(), MFile { content: vec![], ncl: 0 });
                            self.ofiles.push(OpenFile {
                                raw,
                                vol: vi,
                                path: p,
                                offset: 0,
                                writable: true,
                                flushed: false,
                                dirty: false,
                            });
                        }
                    }
                    Err(Error::NotEnoughSpace) => {
                        if is_dir || is_file || !creating || can_create {
                            return Err(format!("{}: FALSE disk-full", desc));
                        }
                    }
                    Err(Error::NotFound) => {
                        if is_dir || is_file || creating {
                            return Err(format!("{}: not found?", desc));
                        }
                    }
                    Err(Error::FileAlreadyOpen) => {
                        if !already_open {
                            return Err(format!("{}: not open", desc));
                        }
                    }
                    Err(Error::FileAlreadyExists) => {
                        if !(is_dir || is_file) {
                            return Err(format!("{}: does not exist", desc));
                        }
                    }
                    Err(Error::OpenedDirAsFile) => {
                        if !is_dir {
                            return Err(format!("{}: not a dir", desc));
                        }
                    }
                    Err(e) => return Err(format!("{}: unexpected error {:?}", desc, e)),
                }
                Ok(desc)
            }
            48..=72 => {
                // write
                let cands: Vec<usize> = (0..self.ofiles.len()).filter(|i| self.ofiles[*i].writable).collect();
                if cands.is_empty() {
                    return Ok("skip".into());
                }
                let fi = *self.rng.pick(&cands);
                let (vi, p, raw, offset) = {
                    let f = &self.ofiles[fi];
                    (f.vol, f.path.clone(), f.raw, f.offset)
                };
                let bpc = self.vols[vi].geo.bpc() as usize;
                let len = match self.rng.below(12) {
                    0 => 0,
                    1 => 1,
                    2 => 511,
                    3 => 512,
                    4 => 513,
                    5 => bpc - 1,
                    6 => bpc,
                    7 => bpc + 1,
                    8 => 2 * bpc,
                    9 => 3 * bpc + 7,
                    10 => bpc - (offset % bpc),
                    _ => self.rng.below(4 * bpc as u32) as usize,
                };
                let seed = self.rng.next() as u8;
                let data: Vec<u8> = (0..len).map(|i| (i as u8).wrapping_mul(31).wrapping_add(seed) | 1).collect();
                let free_before = reps[vi].free as u64;
                let (ncl, oldlen) = {
                    let mf = &self.vols[vi].files[&p];
                    (mf.ncl as u64, mf.content.len())
                };
                let room = (ncl + free_before) * bpc as u64 - offset as u64;
                let expect = (len as u64).min(room) as usize;
                let res = self.vm().write(raw, &data);
                let new_len = self.vm().file_length(raw).unwrap() as usize;
                let new_off = self.vm().file_offset(raw).unwrap() as usize;
                let desc = format!(
                    "write v{} '{}' off {} len {} (ncl {}, free {}, expect {}) -> {:?} len {} off {}",
                    vi, p, offset, len, ncl, free_before, expect, res, new_len, new_off
                );
                match res {
                    Ok(()) => {
                        if expect != len {
                            return Err(format!("{}: success although only {} fit", desc, expect));
                        }
                    }
                    Err(Error::DiskFull) | Err(Error::NotEnoughSpace) => {
                        if expect == len {
                            return Err(format!("{}: FALSE disk-full", desc));
                        }
                    }
                    Err(e) => return Err(format!("{}: unexpected error {:?}", desc, e)),
                }
                if new_off != offset + expect {
                    return Err(format!("{}: accepted {} bytes, but {} fit", desc, new_off as i64 - offset as i64, expect));
                }
                if new_len != oldlen.max(offset + expect) {
                    return Err(format!("{}: wrong length", desc));
                }
                let mf = self.vols[vi].files.get_mut(&p).unwrap();
                if mf.content.len() < offset + expect {
                    mf.content.resize(offset + expect, 0);
                }
                mf.content[offset..offset + expect].copy_from_slice(&data[..expect]);
                if len > 0 {
                    let want_ncl = ((offset + expect + bpc - 1) / bpc) as u32;
                    // a non-empty write on a cluster-less file allocates if it can
                    mf.ncl = mf.ncl.max(want_ncl);
                    self.ofiles[fi].dirty = true;
                    if ncl == 0 {
                        // the first cluster is not in the on-disk entry until a flush
                        self.ofiles[fi].flushed = false;
                    }
                }
                self.ofiles[fi].offset = offset + expect;
                Ok(desc)
            }
            73..=79 => {
                // seek + read
                if self.ofiles.is_empty() {
                    return Ok("skip".into());
                }
                let fi = self.rng.below(self.ofiles.len() as u32) as usize;
                let (vi, p, raw) = {
                    let f = &self.ofiles[fi];
                    (f.vol, f.path.clone(), f.raw)
                };
                if self.vols[vi].foreign.contains(&p) {
                    return Ok("skip".into());
                }
                let content = self.vols[vi].files[&p].content.clone();
                let bpc = self.vols[vi].geo.bpc() as usize;
                let off = match self.rng.below(4) {
                    0 => 0,
                    1 => content.len(),
                    2 => (content.len() / bpc) * bpc,
                    _ => self.rng.below(content.len() as u32 + 1) as usize,
                };
                self.vm().file_seek_from_start(raw, off as u32).map_err(|e| format!("seek {:?}", e))?;
                let doread = self.rng.chance(60);
                let mut newoff = off;
                if doread {
                    let n = self.rng.below(2 * bpc as u32 + 1) as usize;
                    let mut buf = vec![0u8; n];
                    let got = self.vm().read(raw, &mut buf).map_err(|e| format!("read '{}' at {}: {:?}", p, off, e))?;
                    let want = n.min(content.len() - off);
                    if got != want || buf[..got] != content[off..off + got] {
                        return Err(format!("read v{} '{}' off {} n {}: got {} want {} / content mismatch", vi, p, off, n, got, want));
                    }
                    newoff = off + got;
                }
                self.ofiles[fi].offset = newoff;
                Ok(format!("seek/read v{} '{}' off {} read {}", vi, p, off, doread))
            }
            80..=83 => {
                // flush
                if self.ofiles.is_empty() {
                    return Ok("skip".into());
                }
                let fi = self.rng.below(self.ofiles.len() as u32) as usize;
                let raw = self.ofiles[fi].raw;
                self.vm().flush_file(raw).map_err(|e| format!("flush {:?}", e))?;
                if self.ofiles[fi].dirty {
                    self.ofiles[fi].flushed = true;
                }
                self.ofiles[fi].dirty = false;
                Ok(format!("flush '{}'", self.ofiles[fi].path))
            }
            84..=90 => {
                // close
                if self.ofiles.is_empty() {
                    return Ok("skip".into());
                }
                let fi = self.rng.below(self.ofiles.len() as u32) as usize;
                let f = self.ofiles.swap_remove(fi);
                self.vm().close_file(f.raw).map_err(|e| format!("close {:?}", e))?;
                Ok(format!("close '{}'", f.path))
            }
            91..=97 => {
                // delete
                let Some(di) = self.pick_dir() else { return Ok("skip".into()) };
                let (vi0, pp0) = (self.odirs[di].vol, self.odirs[di].path.clone());
                let name = if self.rng.chance(1) { format!("FILL{}.BIN", self.rng.below(4)) } else { self.pick_name_in(vi0, &pp0, None) };
                let (vi, ppath, praw) = {
                    let d = &self.odirs[di];
                    (d.vol, d.path.clone(), d.raw)
                };
                let p = format!("{}/{}", ppath, canon(&name));
                let is_dir = self.vols[vi].dirs.contains(&p);
                let is_file = self.vols[vi].files.contains_key(&p) || self.vols[vi].foreign.contains(&p);
                let open = self.ofiles.iter().any(|f| f.vol == vi && f.path == p);
                let res = self.vm().delete_file_in_dir(praw, name.as_str());
                let desc = format!("delete v{} '{}' '{}' -> {:?}", vi, ppath, name, res);
                match res {
                    Ok(()) => {
                        if !is_file || open {
                            return Err(format!("{}: should not have succeeded", desc));
                        }
                        self.vols[vi].files.remove(&p);
                        self.vols[vi].foreign.remove(&p);
                    }
                    Err(Error::NotFound) => {
                        if is_file || is_dir {
                            return Err(format!("{}: exists", desc));
                        }
                    }
                    Err(Error::DeleteDirAsFile) => {
                        if !is_dir {
                            return Err(format!("{}: not a dir", desc));
                        }
                    }
                    Err(Error::FileAlreadyOpen) => {
                        if !open {
                            return Err(format!("{}: not open", desc));
                        }
                    }
                    Err(e) => return Err(format!("{}: unexpected error {:?}", desc, e)),
                }
                Ok(desc)
            }
            98 => {
                // mass create (and close) files in one directory
                let Some(di) = self.pick_dir() else { return Ok("skip".into()) };
                if self.ofiles.len() >= 8 {
                    return Ok("skip".into());
                }
                let (vi, ppath, praw) = {
                    let d = &self.odirs[di];
                    (d.vol, d.path.clone(), d.raw)
                };
                let n = 5 + self.rng.below(60);
                let base = self.rng.below(400);
                let mut made = 0;
                let mut last = String::new();
                for k in 0..n {
                    let name = format!("N{}", (base + k) % 400);
                    let p = format!("{}/{}", ppath, name);
                    if self.vols[vi].dirs.contains(&p) || self.vols[vi].files.contains_key(&p) {
                        continue;
                    }
                    match self.vm().open_file_in_dir(praw, name.as_str(), Mode::ReadWriteCreate) {
                        Ok(raw) => {
                            self.vm().close_file(raw).map_err(|e| format!("close {:?}", e))?;
                            self.vols[vi].files.insert(p, MFile { content: vec![], ncl: 0 });
                            made += 1;
                        }
                        Err(e) => {
                            last = format!("{:?}", e);
                            break;
                        }
                    }
                }
                Ok(format!("mass-create v{} '{}' made {} last error {}", vi, ppath, made, last))
            }
            _ => {
                // remount
                self.unmount()?;
                self.mount();
                Ok("remount".into())
            }
        }
    }
}

fn make_geo(kind: u32, lba: u32, rng: &mut Rng) -> Geo {
    let mut g = match kind {
        0 => Geo::new(false, 1, 4085),
        1 => Geo::new(false, 64, 4085),
        2 => Geo::new(false, 1, 65524),
        3 => Geo::new(true, 1, 65525),
        4 => Geo::new(true, 128, 65525),
        5 => {
            let mut g = Geo::new(false, 2, 4094); // FAT exactly full (4096 entries)
            g.root_entries = 17;
            g.nfats = 1;
            g.reserved = 3;
            g
        }
        6 => {
            let mut g = Geo::new(true, 1, 65534); // FAT exactly full (65536 entries)
            g.root_cluster = 7;
            g.fsinfo = 3;
            g.reserved = 9;
            g
        }
        7 => {
            let mut g = Geo::new(false, 128, 4200);
            g.root_entries = 16;
            g.tail = 77;
            g.fat_extra = 2;
            g
        }
        8 => {
            let mut g = Geo::new(true, 8, 70000);
            g.tail = 5;
            g.fat_extra = 1;
            g.root_cluster = 69999 + 2;
            g
        }
        9 => {
            let mut g = Geo::new(false, 4, 4085 + rng.below(300));
            g.root_entries = 32;
            g
        }
        10 => {
            let mut g = Geo::new(false, 1, 4085 + rng.below(3));
            g.root_entries = 1 + rng.below(3);
            g.fat_extra = 7;
            g
        }
        11 => {
            let mut g = Geo::new(true, 2, 65525 + rng.below(200));
            g.nfats = 1;
            g.reserved = 2;
            g.root_cluster = 2 + rng.below(65000);
            g
        }
        _ => {
            let mut g = Geo::new(false, 32, 65524 - rng.below(2));
            g.root_entries = 240;
            g.reserved = 8;
            g
        }
    };
    g.lba = lba;
    g.derive();
    g
}

fn make_prefill(g: &Geo, rng: &mut Rng) -> Prefill {
    let last = g.clusters + 1;
    let nfree = rng.below(12);
    let mut free: Vec<u32> = Vec::new();
    let style = rng.below(5);
    let avoid = |c: u32| g.fat32 && c == g.root_cluster;
    match style {
        0 => {
            for i in 0..nfree {
                let c = 2 + i;
                if !avoid(c) {
                    free.push(c);
                }
            }
        }
        1 => {
            for i in 0..nfree {
                let c = last - i;
                if !avoid(c) {
                    free.push(c);
                }
            }
        }
        2 => {
            for i in 0..nfree {
                let c = if i % 2 == 0 { 2 + i } else { last - i };
                if !avoid(c) {
                    free.push(c);
                }
            }
        }
        _ => {
            for _ in 0..nfree {
                let c = 2 + rng.below(g.clusters);
                if !avoid(c) && !free.contains(&c) {
                    free.push(c);
                }
            }
        }
    }
    let mut bad = Vec::new();
    if rng.chance(60) {
        for _ in 0..rng.below(8) {
            let c = match rng.below(4) {
                0 => last - rng.below(3),
                1 => 2 + rng.below(4),
                _ => 2 + rng.below(g.clusters),
            };
            if !avoid(c) && !free.contains(&c) && !bad.contains(&c) {
                bad.push(c);
            }
        }
        // bad clusters right next to the free ones
        for f in free.clone() {
            if rng.chance(20) && f + 1 <= last && !avoid(f + 1) && !free.contains(&(f + 1)) && !bad.contains(&(f + 1)) {
                bad.push(f + 1);
            }
        }
    }
    let hint = match rng.below(6) {
        0 => 0xFFFF_FFFF,
        1 => last,
        2 => 2,
        3 => last + 1,
        4 => 2 + rng.below(g.clusters),
        _ => *free.first().unwrap_or(&0xFFFF_FFFF),
    };
    let free_count = match rng.below(4) {
        0 => 0xFFFF_FFFF,
        1 => 0,
        2 => free.len() as u32,
        _ => free.len() as u32 + 3,
    };
    Prefill { free, bad, scramble: rng.chance(50), hint, free_count }
}

fn run_one(seed: u64, ops: u32, verbose: bool) -> Result<(), String> {
    let mut rng = Rng(seed.wrapping_mul(0x9E3779B97F4A7C15) | 1);
    let two = rng.chance(40);
    let kinds = std::env::var("KINDS").ok();
    let kind_list: Vec<u32> = match kinds {
        Some(s) => s.split(',').map(|x| x.parse().unwrap()).collect(),
        None => (0..13).collect(),
    };
    let k0 = *rng.pick(&kind_list);
    let g0 = make_geo(k0, 63 + rng.below(3000), &mut rng);
    let mut geos = vec![g0.clone()];
    if two {
        let k1 = *rng.pick(&kind_list);
        let g1 = make_geo(k1, g0.lba + g0.total + rng.below(100), &mut rng);
        geos.push(g1);
    }
    let total_blocks = geos.last().unwrap().lba + geos.last().unwrap().total + 10;
    let dev = Dev::new(total_blocks);
    let mut vols = Vec::new();
    let mut header = format!("seed {} ", seed);
    for g in &geos {
        let use_pre = rng.chance(85);
        let pre = if use_pre { Some(make_prefill(g, &mut rng)) } else { None };
        mkfs(&dev, g, pre.as_ref(), &mut rng);
        let rep = fsck(&dev, g.lba, pre.as_ref().map(|p| &p.bad[..]).unwrap_or(&[]));
        if !rep.errors.is_empty() || !rep.orphans.is_empty() {
            return Err(format!("mkfs self-check failed: {:?} orphans {}", rep.errors, rep.orphans.len()));
        }
        header += &format!(
            "| geo fat32={} spc={} clusters={} root_entries={} rootcl={} nfats={} lba={} free={:?} bad={:?} hint={:x?} ",
            g.fat32,
            g.spc,
            g.clusters,
            g.root_entries,
            g.root_cluster,
            g.nfats,
            g.lba,
            pre.as_ref().map(|p| p.free.clone()),
            pre.as_ref().map(|p| p.bad.clone()),
            pre.as_ref().map(|p| p.hint)
        );
        let foreign: HashSet<String> = rep.nodes.keys().filter(|k| *k != "/").cloned().collect();
        let mut dirs = HashSet::new();
        dirs.insert("".to_string());
        vols.push(VolState {
            geo: g.clone(),
            bad: pre.map(|p| p.bad).unwrap_or_default(),
            raw: None,
            files: BTreeMap::new(),
            dirs,
            foreign,
        });
    }
    write_mbr(&dev, &geos.iter().collect::<Vec<_>>());
    if verbose {
        println!("{}", header);
    }
    let mut fz = Fuzz { dev, vm: None, vols, ofiles: vec![], odirs: vec![], rng, log: vec![header], verbose };
    fz.mount();
    let mut reps = fz.check("mount").map_err(|e| format!("{}\n{}", fz.log.join("\n"), e))?;
    for i in 0..ops {
        let r = fz.step(&reps);
        let desc = match r {
            Ok(d) => d,
            Err(e) => {
                return Err(format!("{}\nSTEP {} FAILED: {}", fz.log.join("\n"), i, e));
            }
        };
        if desc != "skip" {
            fz.say(format!("[{}] {}", i, desc));
        }
        reps = match fz.check(&desc) {
            Ok(r) => r,
            Err(e) => return Err(format!("{}\nCHECK FAILED at step {}: {}", fz.log.join("\n"), i, e)),
        };
    }
    // final: close everything and check no orphans
    fz.unmount().map_err(|e| format!("{}\nfinal unmount: {}", fz.log.join("\n"), e))?;
    fz.check("final unmount").map_err(|e| format!("{}\n{}", fz.log.join("\n"), e))?;
    Ok(())
}

#[test]
fn fuzz() {
    let start: u64 = std::env::var("SEED0").ok().and_then(|s| s.parse().ok()).unwrap_or(1);
    let n: u64 = std::env::var("SEEDS").ok().and_then(|s| s.parse().ok()).unwrap_or(20);
    let ops: u32 = std::env::var("OPS").ok().and_then(|s| s.parse().ok()).unwrap_or(300);
    let verbose = std::env::var("VERBOSE").is_ok();
    let mut failures = 0;
    for seed in start..start + n {
        let r = std::panic::catch_unwind(|| run_one(seed, ops, verbose));
        match r {
            Ok(Ok(())) => {}
            Ok(Err(e)) => {
                failures += 1;
                let lines: Vec<&str> = e.lines().collect();
                let tail = if lines.len() > 40 { &lines[lines.len() - 40..] } else { &lines[..] };
                println!("=== seed {} FAILED ===\n{}\n{}", seed, lines[0], tail.join("\n"));
            }
            Err(_) => {
                failures += 1;
                println!("=== seed {} PANICKED ===", seed);
            }
        }
    }
    assert_eq!(failures, 0);
}

// ---------------------------------------------------------------- 4 GiB scenario

fn big_file_case(size: u32, write_len: usize, seek_to: Option<u32>) -> Result<String, String> {
    let mut rng = Rng(99);
    let mut g = Geo::new(true, 64, 140000);
    g.lba = 100;
    g.derive();
    let dev = Dev::new(g.lba + g.total + 10);
    mkfs(&dev, &g, None, &mut rng);
    write_mbr(&dev, &[&g]);
    let bpc = g.bpc() as u64;
    let ncl = ((size as u64 + bpc - 1) / bpc) as u32;
    // chain 3..3+ncl
    let mut blk = [0u8; 512];
    let mut cur_sec = u32::MAX;
    for i in 0..ncl {
        let c = 3 + i;
        let v = if i + 1 == ncl { 0x0FFF_FFFF } else { c + 1 };
        let sec = c / 128;
        if sec != cur_sec {
            if cur_sec != u32::MAX {
                for copy in 0..g.nfats {
                    dev.wr(g.lba + g.reserved + copy * g.fatsz + cur_sec, &blk);
                }
            }
            blk = dev.rd(g.lba + g.reserved + sec);
            cur_sec = sec;
        }
        put32(&mut blk, ((c % 128) * 4) as usize, v);
    }
    for copy in 0..g.nfats {
        dev.wr(g.lba + g.reserved + copy * g.fatsz + cur_sec, &blk);
    }
    dev.patch(g.cluster_block(2), 0, &dirent(b"BIG     BIN", 0x20, 3, size, true));
    let rep = fsck(&dev, g.lba, &[]);
    if !rep.errors.is_empty() || !rep.orphans.is_empty() {
        return Err(format!("setup: {:?}", rep.errors));
    }
    let vm: VM = VolumeManager::new_with_limits(dev.clone(), Clock, 100);
    let v = vm.open_raw_volume(VolumeIdx(0)).unwrap();
    let root = vm.open_root_dir(v).unwrap();
    let f = vm.open_file_in_dir(root, "BIG.BIN", Mode::ReadWriteAppend).unwrap();
    if let Some(s) = seek_to {
        vm.file_seek_from_start(f, s).unwrap();
    }
    let off0 = vm.file_offset(f).unwrap();
    let data = vec![0x5Au8; write_len];
    let res = vm.write(f, &data);
    let len = vm.file_length(f).unwrap();
    let off = vm.file_offset(f).unwrap();
    let rep = fsck(&dev, g.lba, &[]);
    let mut out = format!("size {:#x} write {} at {:#x} -> {:?}; len {:#x} off {:#x}", size, write_len, off0, res, len, off);
    if !rep.errors.is_empty() {
        return Err(format!("{} fsck (open): {:?}", out, rep.errors));
    }
    let cres = vm.close_file(f);
    let rep = fsck(&dev, g.lba, &[]);
    out += &format!(" close {:?} on-disk size {:#x} chain {}", cres, rep.nodes["/BIG.BIN"].size, rep.nodes["/BIG.BIN"].chain.len());
    if !rep.errors.is_empty() || !rep.orphans.is_empty() {
        return Err(format!("{} fsck (closed): {:?} orphans {:?}", out, rep.errors, rep.orphans));
    }
    let expect_accept = (write_len as u64).min(0xFFFF_FFFFu64 - off0 as u64);
    if (off as u64) != off0 as u64 + expect_accept {
        return Err(format!("{}: accepted {} expected {}", out, off - off0, expect_accept));
    }
    // read back the tail
    let f = vm.open_file_in_dir(root, "BIG.BIN", Mode::ReadOnly).unwrap();
    let back = (expect_accept as u32).min(len);
    vm.file_seek_from_start(f, off0).unwrap();
    let mut buf = vec![0u8; back as usize];
    let n = vm.read(f, &mut buf).map_err(|e| format!("{} read back {:?}", out, e))?;
    if n != back as usize || buf[..n].iter().any(|b| *b != 0x5A) {
        return Err(format!("{}: read back {} bytes, mismatch", out, n));
    }
    vm.close_file(f).unwrap();
    Ok(out)
}

#[test]
fn big_file() {
    let cases: Vec<(u32, usize, Option<u32>)> = vec![
        (0xFFFF_FFFF - 1000, 2000, None),
        (0xFFFF_FFFF - 1000, 1000, None),
        (0xFFFF_FFFF - 1000, 999, None),
        (0xFFFF_8000 - 10, 100, None),
        (0xFFFF_8000, 0x7FFF, None),
        (0xFFFF_8000, 0x8000, None),
        (0xFFFF_FFFF, 1, None),
        (0xFFFF_FFFF, 0, None),
        (0xFFFF_FFFE, 1, None),
        (0xFFFF_FFFE, 2, None),
        (0xFFFF_0000, 70000, None),
        (0xFFFF_FFFF, 5, Some(0xFFFF_FFFD)),
        (0xFFFF_FFFF, 5, Some(0xFFFF_7FFE)),
        (0x8000_0000, 5, None),
        (0x7FFF_FFFF, 5, None),
    ];
    let mut bad = 0;
    for (s, w, k) in cases {
        match std::panic::catch_unwind(|| big_file_case(s, w, k)) {
            Ok(Ok(o)) => println!("ok: {}", o),
            Ok(Err(e)) => {
                bad += 1;
                println!("FAIL: {}", e)
            }
            Err(_) => {
                bad += 1;
                println!("PANIC in case {:#x} {} {:?}", s, w, k)
            }
        }
    }
    assert_eq!(bad, 0);
}

// ---------------------------------------------------------------- fill / delete / refill cycles

fn cycle_case(kind: u32, seed: u64) -> Result<String, String> {
    let mut rng = Rng(seed | 1);
    let g = make_geo(kind, 77, &mut rng);
    let dev = Dev::new(g.lba + g.total + 10);
    // leave a moderate number of clusters free so a cycle is cheap
    let nfree = 40 + rng.below(60);
    let mut free: Vec<u32> = Vec::new();
    while (free.len() as u32) < nfree {
        let c = match rng.below(3) {
            0 => 2 + rng.below(30),
            1 => g.clusters + 1 - rng.below(30),
            _ => 2 + rng.below(g.clusters),
        };
        if !(g.fat32 && c == g.root_cluster) && !free.contains(&c) {
            free.push(c);
        }
    }
    let pre = Prefill { free: free.clone(), bad: vec![], scramble: true, hint: 0xFFFF_FFFF, free_count: 0xFFFF_FFFF };
    mkfs(&dev, &g, Some(&pre), &mut rng);
    write_mbr(&dev, &[&g]);
    let vm: VM = VolumeManager::new_with_limits(dev.clone(), Clock, 100);
    let v = vm.open_raw_volume(VolumeIdx(0)).unwrap();
    let root = vm.open_root_dir(v).unwrap();
    vm.make_dir_in_dir(root, "SUB").map_err(|e| format!("mkdir {:?}", e))?;
    let sub = vm.open_dir(root, "SUB").unwrap();
    let bpc = g.bpc() as usize;
    let mut baseline_free = None;
    for cycle in 0..12 {
        let rep = fsck(&dev, g.lba, &[]);
        if !rep.errors.is_empty() || !rep.orphans.is_empty() {
            return Err(format!("cycle {} start: {:?} orphans {:?}", cycle, rep.errors, rep.orphans));
        }
        let free0 = rep.free as usize;
        match baseline_free {
            None => baseline_free = Some(free0),
            Some(b) => {
                // directories never shrink, so free may only differ by dir growth in cycle 0
                if free0 + 8 < b {
                    return Err(format!("cycle {}: free clusters drifted from {} to {}", cycle, b, free0));
                }
            }
        }
        // fill with files of random sizes in SUB
        let mut accepted_clusters = 0usize;
        let mut names = Vec::new();
        let mut i = 0;
        let mut full = false;
        while !full {
            let name = format!("F{}.D", i);
            i += 1;
            let f = match vm.open_file_in_dir(sub, name.as_str(), Mode::ReadWriteCreate) {
                Ok(f) => f,
                Err(Error::NotEnoughSpace) => break,
                Err(e) => return Err(format!("create {:?}", e)),
            };
            names.push(name);
            let len = 1 + rng.below(3 * bpc as u32) as usize;
            let data = vec![0xA5u8; len];
            match vm.write(f, &data) {
                Ok(()) => {}
                Err(Error::DiskFull) | Err(Error::NotEnoughSpace) => full = true,
                Err(e) => return Err(format!("write {:?}", e)),
            }
            let l = vm.file_length(f).unwrap() as usize;
            accepted_clusters += (l + bpc - 1) / bpc;
            vm.close_file(f).map_err(|e| format!("close {:?}", e))?;
            if i > 5000 {
                return Err("never filled".into());
            }
        }
        let rep = fsck(&dev, g.lba, &[]);
        if !rep.errors.is_empty() || !rep.orphans.is_empty() {
            return Err(format!("cycle {} full: {:?} orphans {:?}", cycle, rep.errors, rep.orphans));
        }
        if full && rep.free != 0 {
            return Err(format!("cycle {}: disk-full reported with {} clusters free", cycle, rep.free));
        }
        let dir_growth = free0 - rep.free as usize - accepted_clusters;
        if dir_growth > 40 {
            return Err(format!("cycle {}: {} clusters unaccounted", cycle, dir_growth));
        }
        // delete every other, then all
        for (k, n) in names.iter().enumerate() {
            if k % 2 == 0 {
                vm.delete_file_in_dir(sub, n.as_str()).map_err(|e| format!("delete {:?}", e))?;
            }
        }
        for (k, n) in names.iter().enumerate() {
            if k % 2 == 1 {
                vm.delete_file_in_dir(sub, n.as_str()).map_err(|e| format!("delete {:?}", e))?;
            }
        }
        if cycle % 3 == 2 {
            // remount
        }
    }
    Ok(format!("kind {} ok", kind))
}

#[test]
fn cycles() {
    let mut bad = 0;
    for kind in 0..10 {
        for seed in 1..4u64 {
            match std::panic::catch_unwind(|| cycle_case(kind, seed * 7919)) {
                Ok(Ok(_)) => {}
                Ok(Err(e)) => {
                    bad += 1;
                    println!("FAIL kind {} seed {}: {}", kind, seed, e)
                }
                Err(_) => {
                    bad += 1;
                    println!("PANIC kind {} seed {}", kind, seed)
                }
            }
        }
    }
    assert_eq!(bad, 0);
}

// ---------------------------------------------------------------- many files in one directory

fn many_case(kind: u32, in_root: bool) -> Result<String, String> {
    let mut rng = Rng(4242);
    let g = make_geo(kind, 77, &mut rng);
    let dev = Dev::new(g.lba + g.total + 10);
    mkfs(&dev, &g, None, &mut rng);
    write_mbr(&dev, &[&g]);
    let vm: VM = VolumeManager::new_with_limits(dev.clone(), Clock, 100);
    let v = vm.open_raw_volume(VolumeIdx(0)).unwrap();
    let root = vm.open_root_dir(v).unwrap();
    let dir = if in_root {
        root
    } else {
        vm.make_dir_in_dir(root, "SUB").map_err(|e| format!("mkdir {:?}", e))?;
        vm.open_dir(root, "SUB").unwrap()
    };
    let chk = |what: &str| -> Result<Report, String> {
        let rep = fsck(&dev, g.lba, &[]);
        if !rep.errors.is_empty() || !rep.orphans.is_empty() {
            return Err(format!("{}: {:?} orphans {:?}", what, rep.errors, rep.orphans));
        }
        Ok(rep)
    };
    let mut made = Vec::new();
    for round in 0..3 {
        for i in 0..700 {
            let name = format!("M{}.{}", i, round);
            let isdir = i % 7 == 3 && round == 0;
            let r = if isdir {
                vm.make_dir_in_dir(dir, name.as_str())
            } else {
                vm.open_file_in_dir(dir, name.as_str(), Mode::ReadWriteCreate).and_then(|f| {
                    if i % 5 == 0 {
                        vm.write(f, b"hello")?;
                    }
                    vm.close_file(f)
                })
            };
            match r {
                Ok(()) => {
                    if !isdir {
                        made.push(name.clone())
                    }
                }
                Err(Error::NotEnoughSpace) => {
                    let rep = chk(&format!("create {} failed", name))?;
                    let key = if in_root { "/".to_string() } else { "/SUB".to_string() };
                    if rep.nodes[&key].free_slots > 0 || (rep.free > 1 && !(in_root && !g.fat32)) {
                        return Err(format!("false disk full at {} free slots {} free {}", name, rep.nodes[&key].free_slots, rep.free));
                    }
                    break;
                }
                Err(e) => return Err(format!("create {}: {:?}", name, e)),
            }
            if i % 16 == 0 || i > 500 {
                chk(&format!("create {}", name))?;
            }
        }
        chk("after creates")?;
        // duplicates attempts
        for n in made.iter().take(20) {
            let lower = n.to_lowercase();
            match vm.open_file_in_dir(dir, lower.as_str(), Mode::ReadWriteCreate) {
                Err(Error::FileAlreadyExists) => {}
                other => return Err(format!("dup create {} -> {:?}", lower, other)),
            }
            match vm.make_dir_in_dir(dir, lower.as_str()) {
                Err(Error::FileAlreadyExists) => {}
                other => return Err(format!("dup mkdir {} -> {:?}", lower, other)),
            }
        }
        // delete all files
        for (k, n) in made.iter().enumerate() {
            vm.delete_file_in_dir(dir, n.as_str()).map_err(|e| format!("delete {} {:?}", n, e))?;
            if k % 50 == 0 {
                chk(&format!("delete {}", n))?;
            }
        }
        made.clear();
        chk("after deletes")?;
    }
    Ok("ok".into())
}

#[test]
fn many() {
    let mut bad = 0;
    for kind in [0u32, 3, 5, 6, 7, 8, 9] {
        for in_root in [true, false] {
            match std::panic::catch_unwind(|| many_case(kind, in_root)) {
                Ok(Ok(_)) => {}
                Ok(Err(e)) => {
                    bad += 1;
                    println!("FAIL kind {} root {}: {}", kind, in_root, e)
                }
                Err(_) => {
                    bad += 1;
                    println!("PANIC kind {} root {}", kind, in_root)
                }
            }
        }
    }
    assert_eq!(bad, 0);
}

// ---------------------------------------------------------------- long chains: truncate + delete

fn long_case(kind: u32, seed: u64) -> Result<String, String> {
    let mut rng = Rng(seed | 1);
    let g = make_geo(kind, 77, &mut rng);
    let dev = Dev::new(g.lba + g.total + 10);
    let mut pre = make_prefill(&g, &mut rng);
    pre.scramble = true;
    mkfs(&dev, &g, Some(&pre), &mut rng);
    write_mbr(&dev, &[&g]);
    let rep0 = fsck(&dev, g.lba, &pre.bad);
    if !rep0.errors.is_empty() {
        return Err(format!("setup {:?}", rep0.errors));
    }
    let vm: VM = VolumeManager::new_with_limits(dev.clone(), Clock, 100);
    let v = vm.open_raw_volume(VolumeIdx(0)).unwrap();
    let root = vm.open_root_dir(v).unwrap();
    let fills: Vec<String> = rep0.nodes.keys().filter(|k| k.starts_with("/FILL")).map(|k| k[1..].to_string()).collect();
    let mut expect_free = rep0.free;
    for (i, name) in fills.iter().enumerate() {
        let n = &rep0.nodes[&format!("/{}", name)];
        if i % 2 == 0 {
            let f = vm.open_file_in_dir(root, name.as_str(), Mode::ReadWriteTruncate).map_err(|e| format!("trunc {:?}", e))?;
            let rep = fsck(&dev, g.lba, &pre.bad);
            if !rep.errors.is_empty() || !rep.orphans.is_empty() {
                return Err(format!("after truncate {}: {:?} orphans {}", name, rep.errors, rep.orphans.len()));
            }
            expect_free += n.chain.len() as u32 - 1;
            if rep.free != expect_free {
                return Err(format!("after truncate {}: free {} expected {}", name, rep.free, expect_free));
            }
            // regrow a bit
            vm.write(f, &vec![7u8; g.bpc() as usize * 2 + 1]).map_err(|e| format!("regrow {:?}", e))?;
            vm.close_file(f).unwrap();
            let rep = fsck(&dev, g.lba, &pre.bad);
            if !rep.errors.is_empty() || !rep.orphans.is_empty() {
                return Err(format!("after regrow {}: {:?} orphans {}", name, rep.errors, rep.orphans.len()));
            }
            expect_free -= 2;
            if rep.free != expect_free {
                return Err(format!("after regrow {}: free {} expected {}", name, rep.free, expect_free));
            }
            vm.delete_file_in_dir(root, name.as_str()).map_err(|e| format!("delete {:?}", e))?;
            expect_free += 3;
        } else {
            vm.delete_file_in_dir(root, name.as_str()).map_err(|e| format!("delete {:?}", e))?;
            expect_free += n.chain.len() as u32;
        }
        let rep = fsck(&dev, g.lba, &pre.bad);
        if !rep.errors.is_empty() || !rep.orphans.is_empty() {
            return Err(format!("after delete {}: {:?} orphans {}", name, rep.errors, rep.orphans.len()));
        }
        if rep.free != expect_free {
            return Err(format!("after delete {}: free {} expected {}", name, rep.free, expect_free));
        }
    }
    let usable = g.clusters - pre.bad.len() as u32 - if g.fat32 { 1 } else { 0 };
    if expect_free != usable {
        return Err(format!("end: free {} usable {}", expect_free, usable));
    }
    // now fill the whole volume with one file per 1000 clusters and check capacity
    if g.clusters as u64 * g.bpc() as u64 > 300_000_000 {
        return Ok("ok (no refill)".into());
    }
    let mut total = 0u64;
    let chunk = vec![9u8; 1 << 20];
    let mut fi = 0;
    'outer: loop {
        let f = match vm.open_file_in_dir(root, format!("R{}", fi).as_str(), Mode::ReadWriteCreate) {
            Ok(f) => f,
            Err(Error::NotEnoughSpace) => break,
            Err(e) => return Err(format!("refill create {:?}", e)),
        };
        fi += 1;
        for _ in 0..32 {
            let before = vm.file_length(f).unwrap() as u64;
            let r = vm.write(f, &chunk);
            total += vm.file_length(f).unwrap() as u64 - before;
            match r {
                Ok(()) => {}
                Err(Error::DiskFull) | Err(Error::NotEnoughSpace) => {
                    vm.close_file(f).unwrap();
                    break 'outer;
                }
                Err(e) => return Err(format!("refill write {:?}", e)),
            }
        }
        vm.close_file(f).unwrap();
    }
    let rep = fsck(&dev, g.lba, &pre.bad);
    if !rep.errors.is_empty() || !rep.orphans.is_empty() {
        return Err(format!("after refill: {:?} orphans {}", rep.errors, rep.orphans.len()));
    }
    let root_growth = if g.fat32 { rep.nodes["/"].chain.len() as u64 - 1 } else { 0 };
    if total != (usable as u64 - root_growth) * g.bpc() as u64 || rep.free != 0 {
        return Err(format!("refill accepted {} bytes, capacity {} (free now {})", total, (usable as u64 - root_growth) * g.bpc() as u64, rep.free));
    }
    Ok("ok".into())
}

#[test]
fn long_chains() {
    let mut bad = 0;
    for kind in 0..13 {
        for seed in 1..4u64 {
            match std::panic::catch_unwind(|| long_case(kind, seed * 104729)) {
                Ok(Ok(_)) => {}
                Ok(Err(e)) => {
                    bad += 1;
                    println!("FAIL kind {} seed {}: {}", kind, seed, e)
                }
                Err(_) => {
                    bad += 1;
                    println!("PANIC kind {} seed {}", kind, seed)
                }
            }
        }
    }
    assert_eq!(bad, 0);
}
