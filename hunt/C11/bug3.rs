//! C11 bug 3: `Volume::close()` (and dropping a `Volume`) on a FAT32 volume
//! writes the FSInfo sector.  If that one device call fails, `close_volume`
//! returns early and leaves the volume in the manager's table - but
//! `Volume::close(self)` has consumed the only handle (`mem::forget(self)`),
//! and `Drop` throws the error away.  The volume can now neither be closed nor
//! opened again: with the default MAX_VOLUMES = 1 every `open_volume` answers
//! `TooManyOpenVolumes` for ever (with more slots: `VolumeAlreadyOpen` for this
//! partition, and one slot is lost).  One transient write fault wedges the
//! VolumeManager.
//!
//! Clause violated (C11): "A block-device error ... never wedges the API" /
//! "Afterwards every handle can still be used and closed".  The property names
//! the intended mechanism for files - "close removes the handle even if the
//! flush failed, returning the flush error" - the volume close does not follow it.
//!
//! What should have happened: `Volume::close()` returns the `DeviceError`
//! (it does) and the volume is closed (FSInfo is advisory), or the caller gets
//! the handle back to try again.  Either way `open_volume(VolumeIdx(0))` must
//! work once the device is healthy again.
//!
//! Root cause: src/volume_mgr.rs:354-360 - `fat.update_info_sector(..)?`
//! returns before `open_volumes.swap_remove(volume_idx)`; src/lib.rs:365-369
//! (`Volume::close`: `mem::forget(self)` whatever the result) and
//! src/lib.rs:378-380 (`Drop`: `_ = close_volume(..)`).
//!
//! Self-contained: a sparse in-memory block device, a tiny mkfs, no files.

use embedded_sdmmc::{
    Block, BlockCount, BlockDevice, BlockIdx, Error, Mode, TimeSource, Timestamp, VolumeIdx,
    VolumeManager,
};
use std::cell::{Cell, RefCell};
use std::collections::HashMap;

struct Disk {
    blocks: RefCell<HashMap<u32, [u8; 512]>>,
    nblocks: u32,
    /// fail the next write call (once)
    fail_next_write: Cell<bool>,
    failed: Cell<u32>,
}

#[derive(Debug, Clone, PartialEq)]
struct DevErr;

struct Dev<'a>(&'a Disk);

impl<'a> BlockDevice for Dev<'a> {
    type Error = DevErr;
    fn read(&self, blocks: &mut [Block], start: BlockIdx) -> Result<(), DevErr> {
        for (i, b) in blocks.iter_mut().enumerate() {
            let idx = start.0 + i as u32;
            assert!(idx < self.0.nblocks);
            b.contents = self
                .0
                .blocks
                .borrow()
                .get(&idx)
                .copied()
                .unwrap_or([0u8; 512]);
        }
        Ok(())
    }
    fn write(&self, blocks: &[Block], start: BlockIdx) -> Result<(), DevErr> {
        if self.0.fail_next_write.replace(false) {
            self.0.failed.set(self.0.failed.get() + 1);
            return Err(DevErr);
        }
        for (i, b) in blocks.iter().enumerate() {
            let idx = start.0 + i as u32;
            assert!(idx < self.0.nblocks);
            self.0.blocks.borrow_mut().insert(idx, b.contents);
        }
        Ok(())
    }
    fn num_blocks(&self) -> Result<BlockCount, DevErr> {
        Ok(BlockCount(self.0.nblocks))
    }
}

struct Clock;
impl TimeSource for Clock {
    fn get_timestamp(&self) -> Timestamp {
        Timestamp {
            year_since_1970: 40,
            zero_indexed_month: 1,
            zero_indexed_day: 1,
            hours: 1,
            minutes: 2,
            seconds: 4,
        }
    }
}

fn put16(b: &mut [u8], off: usize, v: u16) {
    b[off..off + 2].copy_from_slice(&v.to_le_bytes());
}
fn put32(b: &mut [u8], off: usize, v: u32) {
    b[off..off + 4].copy_from_slice(&v.to_le_bytes());
}

/// One partition at block 1, one sector per cluster, two FATs.
fn mkfs(fat32: bool) -> Disk {
    let clusters: u32 = if fat32 { 65600 } else { 4200 };
    let reserved: u32 = if fat32 { 32 } else { 1 };
    let root_entries: u32 = if fat32 { 0 } else { 64 };
    let root_blocks = root_entries * 32 / 512;
    let fat_size = if fat32 {
        ((clusters + 2) * 4 + 511) / 512
    } else {
        ((clusters + 2) * 2 + 511) / 512
    };
    let total = reserved + 2 * fat_size + root_blocks + clusters;
    let disk = Disk {
        blocks: RefCell::new(HashMap::new()),
        nblocks: 1 + total + 8,
        fail_next_write: Cell::new(false),
        failed: Cell::new(0),
    };
    let mut mbr = [0u8; 512];
    mbr[446 + 4] = if fat32 { 0x0C } else { 0x06 };
    put32(&mut mbr, 446 + 8, 1);
    put32(&mut mbr, 446 + 12, total);
    put16(&mut mbr, 510, 0xAA55);
    disk.blocks.borrow_mut().insert(0, mbr);
    let mut b = [0u8; 512];
    b[0] = 0xEB;
    b[1] = 0x3C;
    b[2] = 0x90;
    b[3..11].copy_from_slice(b"MSDOS5.0");
    put16(&mut b, 11, 512);
    b[13] = 1;
    put16(&mut b, 14, reserved as u16);
    b[16] = 2;
    put16(&mut b, 17, root_entries as u16);
    b[21] = 0xF8;
    put16(&mut b, 22, if fat32 { 0 } else { fat_size as u16 });
    put32(&mut b, 32, total);
    if fat32 {
        put32(&mut b, 36, fat_size);
        put32(&mut b, 44, 2);
        put16(&mut b, 48, 1);
        put16(&mut b, 50, 6);
        b[66] = 0x29;
        b[71..82].copy_from_slice(b"           ");
        b[82..90].copy_from_slice(b"FAT32   ");
    } else {
        b[38] = 0x29;
        b[43..54].copy_from_slice(b"           ");
        b[54..62].copy_from_slice(b"FAT16   ");
    }
    put16(&mut b, 510, 0xAA55);
    disk.blocks.borrow_mut().insert(1, b);
    if fat32 {
        let mut info = [0u8; 512];
        put32(&mut info, 0, 0x4161_5252);
        put32(&mut info, 484, 0x6141_7272);
        put32(&mut info, 488, clusters - 1);
        put32(&mut info, 492, 3);
        put32(&mut info, 508, 0xAA55_0000);
        disk.blocks.borrow_mut().insert(2, info);
    }
    for copy in 0..2 {
        let mut f = [0u8; 512];
        if fat32 {
            put32(&mut f, 0, 0x0FFF_FFF8);
            put32(&mut f, 4, 0x0FFF_FFFF);
            put32(&mut f, 8, 0x0FFF_FFFF); // the root directory's cluster
        } else {
            put16(&mut f, 0, 0xFFF8);
            put16(&mut f, 2, 0xFFFF);
        }
        disk.blocks
            .borrow_mut()
            .insert(1 + reserved + copy * fat_size, f);
    }
    disk
}

type Mgr<'a> = VolumeManager<Dev<'a>, Clock, 4, 4, 1>;


#[test]
fn failed_volume_close_wedges_the_manager() {
    let disk = mkfs(true);
    let mgr: Mgr = VolumeManager::new_with_limits(Dev(&disk), Clock, 100);
    let vol = mgr.open_volume(VolumeIdx(0)).expect("open");

    // One transient fault: the FSInfo write of the close fails.
    disk.fail_next_write.set(true);
    let r = vol.close();
    assert_eq!(disk.failed.get(), 1, "the fault was injected");
    assert!(
        matches!(r, Err(Error::DeviceError(_))),
        "the close reports the device error: {:?}",
        r
    );
    assert!(!mgr.has_open_handles());

    // The device is healthy again; the handle is gone (close consumed it).
    let again = mgr.open_volume(VolumeIdx(0));
    assert!(
        again.is_ok(),
        "after one failed Volume::close() the volume can never be opened again: {:?}",
        again.err()
    );
}

#[test]
fn failed_volume_drop_wedges_the_manager() {
    let disk = mkfs(true);
    let mgr: Mgr = VolumeManager::new_with_limits(Dev(&disk), Clock, 100);
    {
        let vol = mgr.open_volume(VolumeIdx(0)).expect("open");
        let root = vol.open_root_dir().expect("root");
        let f = root
            .open_file_in_dir("A.TXT", Mode::ReadWriteCreate)
            .expect("create");
        f.write(b"hello").expect("write");
        f.close().expect("close file");
        root.close().expect("close dir");
        disk.fail_next_write.set(true);
        // `vol` goes out of scope: the FSInfo write fails, nobody is told
    }
    assert_eq!(disk.failed.get(), 1, "the fault was injected");
    let again = mgr.open_volume(VolumeIdx(0));
    assert!(
        again.is_ok(),
        "after a failed FSInfo write in Volume::drop the volume can never be opened again: {:?}",
        again.err()
    );
}
