//! C11 fault sweep harness (scratch).
#![allow(dead_code)]

use embedded_sdmmc::{
    Block, BlockCount, BlockDevice, BlockIdx, Error, LfnBuffer, Mode, RawDirectory, RawFile,
    RawVolume, TimeSource, Timestamp, VolumeIdx, VolumeManager,
};
use std::cell::{Cell, RefCell};
use std::collections::{BTreeMap, HashMap};
use std::panic::{catch_unwind, AssertUnwindSafe};

// ---------------------------------------------------------------- device

#[derive(Clone, Copy, Debug, PartialEq)]
enum Fault {
    None,
    Once(usize),
    From(usize),
    Prob(u64),
}

struct Disk {
    blocks: RefCell<HashMap<u32, [u8; 512]>>,
    nblocks: u32,
    calls: Cell<usize>,
    fault: Cell<Fault>,
    fired: Cell<usize>,
    log: RefCell<Vec<(char, u32, bool)>>,
    rng: Cell<u64>,
}

fn xs(c: &Cell<u64>) -> u64 {
    let mut x = c.get();
    x ^= x << 13;
    x ^= x >> 7;
    x ^= x << 17;
    c.set(x);
    x
}

#[derive(Debug, Clone, PartialEq)]
struct DevErr;

impl Disk {
    fn new(nblocks: u32) -> Disk {
        Disk {
            blocks: RefCell::new(HashMap::new()),
            nblocks,
            calls: Cell::new(0),
            fault: Cell::new(Fault::None),
            fired: Cell::new(0),
            log: RefCell::new(Vec::new()),
            rng: Cell::new(0x9E3779B97F4A7C15),
        }
    }
    fn fork(&self) -> Disk {
        Disk {
            blocks: RefCell::new(self.blocks.borrow().clone()),
            nblocks: self.nblocks,
            calls: Cell::new(0),
            fault: Cell::new(Fault::None),
            fired: Cell::new(0),
            log: RefCell::new(Vec::new()),
            rng: Cell::new(0x9E3779B97F4A7C15),
        }
    }
    fn arm(&self, f: Fault) {
        self.calls.set(0);
        self.fired.set(0);
        self.fault.set(f);
        self.log.borrow_mut().clear();
    }
    fn disarm(&self) {
        self.fault.set(Fault::None);
    }
    fn should_fail(&self) -> bool {
        let n = self.calls.get();
        self.calls.set(n + 1);
        let fail = match self.fault.get() {
            Fault::None => false,
            Fault::Once(k) => n == k,
            Fault::From(k) => n >= k,
            Fault::Prob(pm) => xs(&self.rng) % 1000 < pm,
        };
        if fail {
            self.fired.set(self.fired.get() + 1);
        }
        fail
    }
    fn put(&self, idx: u32, data: [u8; 512]) {
        self.blocks.borrow_mut().insert(idx, data);
    }
    fn get(&self, idx: u32) -> [u8; 512] {
        self.blocks
            .borrow()
            .get(&idx)
            .copied()
            .unwrap_or([0u8; 512])
    }
}

struct Dev<'a>(&'a Disk);

impl<'a> BlockDevice for Dev<'a> {
    type Error = DevErr;
    fn read(&self, blocks: &mut [Block], start: BlockIdx) -> Result<(), DevErr> {
        let fail = self.0.should_fail();
        self.0.log.borrow_mut().push(('R', start.0, fail));
        if fail {
            for b in blocks.iter_mut() {
                for (i, x) in b.contents.iter_mut().enumerate() {
                    *x = 0xA5 ^ (i as u8).wrapping_mul(31);
                }
            }
            return Err(DevErr);
        }
        for (i, b) in blocks.iter_mut().enumerate() {
            let idx = start.0 + i as u32;
            assert!(idx < self.0.nblocks, "read out of range {}", idx);
            b.contents = self.0.get(idx);
        }
        Ok(())
    }
    fn write(&self, blocks: &[Block], start: BlockIdx) -> Result<(), DevErr> {
        let fail = self.0.should_fail();
        self.0.log.borrow_mut().push(('W', start.0, fail));
        if fail {
            return Err(DevErr);
        }
        for (i, b) in blocks.iter().enumerate() {
            let idx = start.0 + i as u32;
            assert!(idx < self.0.nblocks, "write out of range {}", idx);
            self.0.put(idx, b.contents);
        }
        Ok(())
    }
    fn num_blocks(&self) -> Result<BlockCount, DevErr> {
        Ok(BlockCount(self.0.nblocks))
    }
}

struct Clock;
impl TimeSource for Clock {
    fn get_timestamp(&self) -> Timestamp {
        Timestamp {
            year_since_1970: 40,
            zero_indexed_month: 1,
            zero_indexed_day: 1,
            hours: 1,
            minutes: 2,
            seconds: 4,
        }
    }
}

type Mgr<'a> = VolumeManager<Dev<'a>, Clock, 8, 8, 1>;

// ---------------------------------------------------------------- mkfs

fn put16(b: &mut [u8], off: usize, v: u16) {
    b[off..off + 2].copy_from_slice(&v.to_le_bytes());
}
fn put32(b: &mut [u8], off: usize, v: u32) {
    b[off..off + 4].copy_from_slice(&v.to_le_bytes());
}

const PART_START: u32 = 1;

fn mkfs(fat32: bool) -> Disk {
    let clusters: u32 = if fat32 { 65600 } else { 4200 };
    let reserved: u32 = if fat32 { 32 } else { 1 };
    let root_entries: u32 = if fat32 { 0 } else { 64 };
    let root_blocks = root_entries * 32 / 512;
    let fat_size = if fat32 {
        ((clusters + 2) * 4 + 511) / 512
    } else {
        ((clusters + 2) * 2 + 511) / 512
    };
    let total = reserved + 2 * fat_size + root_blocks + clusters;
    let disk = Disk::new(PART_START + total + 8);
    // MBR
    let mut mbr = [0u8; 512];
    mbr[446 + 4] = if fat32 { 0x0C } else { 0x06 };
    put32(&mut mbr, 446 + 8, PART_START);
    put32(&mut mbr, 446 + 12, total);
    put16(&mut mbr, 510, 0xAA55);
    disk.put(0, mbr);
    // BPB
    let mut b = [0u8; 512];
    b[0] = 0xEB;
    b[1] = 0x3C;
    b[2] = 0x90;
    b[3..11].copy_from_slice(b"MSDOS5.0");
    put16(&mut b, 11, 512);
    b[13] = 1;
    put16(&mut b, 14, reserved as u16);
    b[16] = 2;
    put16(&mut b, 17, root_entries as u16);
    put16(&mut b, 19, 0);
    b[21] = 0xF8;
    put16(&mut b, 22, if fat32 { 0 } else { fat_size as u16 });
    put32(&mut b, 32, total);
    if fat32 {
        put32(&mut b, 36, fat_size);
        put16(&mut b, 42, 0);
        put32(&mut b, 44, 2);
        put16(&mut b, 48, 1);
        put16(&mut b, 50, 6);
        b[66] = 0x29;
        b[71..82].copy_from_slice(b"           ");
        b[82..90].copy_from_slice(b"FAT32   ");
    } else {
        b[38] = 0x29;
        b[43..54].copy_from_slice(b"           ");
        b[54..62].copy_from_slice(b"FAT16   ");
    }
    put16(&mut b, 510, 0xAA55);
    disk.put(PART_START, b);
    if fat32 {
        let mut info = [0u8; 512];
        put32(&mut info, 0, 0x4161_5252);
        put32(&mut info, 484, 0x6141_7272);
        put32(&mut info, 488, clusters - 1);
        put32(&mut info, 492, 3);
        put32(&mut info, 508, 0xAA55_0000);
        disk.put(PART_START + 1, info);
    }
    // FATs
    for copy in 0..2 {
        let mut f = [0u8; 512];
        if fat32 {
            put32(&mut f, 0, 0x0FFF_FFF8);
            put32(&mut f, 4, 0x0FFF_FFFF);
            put32(&mut f, 8, 0x0FFF_FFFF); // root dir
        } else {
            put16(&mut f, 0, 0xFFF8);
            put16(&mut f, 2, 0xFFFF);
        }
        disk.put(PART_START + reserved + copy * fat_size, f);
    }
    disk
}

fn content(name: &str, len: usize) -> Vec<u8> {
    let seed = name.bytes().fold(7u32, |a, b| a.wrapping_mul(31).wrapping_add(b as u32));
    (0..len)
        .map(|i| (seed.wrapping_add(i as u32).wrapping_mul(2654435761) >> 13) as u8)
        .collect()
}

/// Builds the base image: root with 40 files (multi-cluster on FAT32), a
/// subdirectory SUB with 40 files (3 clusters), some holes from deleted files.
fn base(fat32: bool) -> Disk {
    let disk = mkfs(fat32);
    {
        let mgr: Mgr = VolumeManager::new_with_limits(Dev(&disk), Clock, 100);
        let vol = mgr.open_raw_volume(VolumeIdx(0)).unwrap();
        let root = mgr.open_root_dir(vol).unwrap();
        mgr.make_dir_in_dir(root, "SUB").unwrap();
        let sub = mgr.open_dir(root, "SUB").unwrap();
        for (d, pfx) in [(root, "R"), (sub, "S")] {
            for i in 0..40 {
                let name = format!("{}{:02}.TXT", pfx, i);
                let f = mgr
                    .open_file_in_dir(d, name.as_str(), Mode::ReadWriteCreate)
                    .unwrap();
                let len = match i % 4 {
                    0 => 0,
                    1 => 100,
                    2 => 512,
                    _ => 1300,
                };
                mgr.write(f, &content(&name, len)).unwrap();
                mgr.close_file(f).unwrap();
            }
            // holes
            for i in [2, 20] {
                let name = format!("{}{:02}.TXT", pfx, i);
                mgr.delete_file_in_dir(d, name.as_str()).unwrap();
            }
        }
        mgr.make_dir_in_dir(sub, "DEEP").unwrap();
        mgr.close_dir(sub).unwrap();
        mgr.close_dir(root).unwrap();
        mgr.close_volume(vol).unwrap();
    }
    disk
}

// ---------------------------------------------------------------- snapshot of the medium

#[derive(Debug, Clone, PartialEq)]
struct Snap {
    /// dir path -> list of (name, is_dir, size)
    dirs: BTreeMap<String, Vec<(String, bool, u32)>>,
    /// file path -> content
    files: BTreeMap<String, Result<Vec<u8>, String>>,
}

fn list(mgr: &Mgr, d: RawDirectory) -> Result<Vec<(String, bool, u32)>, String> {
    let mut v = Vec::new();
    mgr.iterate_dir(d, |e| {
        if !e.attributes.is_volume() {
            v.push((format!("{}", e.name), e.attributes.is_directory(), e.size));
        }
    })
    .map_err(|e| format!("{:?}", e))?;
    Ok(v)
}

fn read_all(mgr: &Mgr, d: RawDirectory, name: &str) -> Result<Vec<u8>, String> {
    let f = mgr
        .open_file_in_dir(d, name, Mode::ReadOnly)
        .map_err(|e| format!("open {:?}", e))?;
    let mut out = Vec::new();
    let mut buf = [0u8; 700];
    let r = loop {
        match mgr.read(f, &mut buf) {
            Ok(0) => break Ok(out),
            Ok(n) => out.extend_from_slice(&buf[..n]),
            Err(e) => break Err(format!("read {:?}", e)),
        }
    };
    mgr.close_file(f).map_err(|e| format!("close {:?}", e))?;
    r
}

fn snap_with(mgr: &Mgr, vol: RawVolume) -> Result<Snap, String> {
    let mut s = Snap {
        dirs: BTreeMap::new(),
        files: BTreeMap::new(),
    };
    let root = mgr.open_root_dir(vol).map_err(|e| format!("{:?}", e))?;
    let r = (|| {
        let l = list(mgr, root)?;
        s.dirs.insert("/".into(), l.clone());
        for (n, is_dir, _) in l.iter() {
            if *is_dir {
                if n == "." || n == ".." {
                    continue;
                }
                let sub = mgr
                    .open_dir(root, n.as_str())
                    .map_err(|e| format!("open_dir {} {:?}", n, e))?;
                let r2 = (|| {
                    let l2 = list(mgr, sub)?;
                    s.dirs.insert(format!("/{}/", n), l2.clone());
                    for (n2, d2, _) in l2.iter() {
                        if !*d2 {
                            s.files
                                .insert(format!("/{}/{}", n, n2), read_all(mgr, sub, n2));
                        }
                    }
                    Ok::<(), String>(())
                })();
                mgr.close_dir(sub).unwrap();
                r2?;
            } else {
                s.files.insert(format!("/{}", n), read_all(mgr, root, n));
            }
        }
        Ok::<(), String>(())
    })();
    mgr.close_dir(root).unwrap();
    r?;
    Ok(s)
}

/// Snapshot of the medium, with a fresh manager (no cache)
fn snap_medium(disk: &Disk) -> Result<Snap, String> {
    let saved = disk.fault.get();
    disk.fault.set(Fault::None);
    let mgr: Mgr = VolumeManager::new_with_limits(Dev(disk), Clock, 9000);
    let vol = mgr
        .open_raw_volume(VolumeIdx(0))
        .map_err(|e| format!("{:?}", e))?;
    let r = snap_with(&mgr, vol);
    disk.fault.set(saved);
    r
}

fn dup_names(s: &Snap) -> Vec<String> {
    let mut out = Vec::new();
    for (d, l) in s.dirs.iter() {
        let mut seen = std::collections::BTreeSet::new();
        for (n, _, _) in l {
            if !seen.insert(n.clone()) {
                out.push(format!("{}{}", d, n));
            }
        }
    }
    out
}

// ---------------------------------------------------------------- scenarios

struct Ctx<'a> {
    mgr: Mgr<'a>,
    disk: &'a Disk,
    vol: RawVolume,
    root: RawDirectory,
    sub: RawDirectory,
    files: RefCell<Vec<RawFile>>,
    dirs: RefCell<Vec<RawDirectory>>,
}

type OpFn = Box<dyn Fn(&Ctx) -> Result<String, String>>;

struct Scn {
    name: String,
    /// paths touched by the op (excluded from the "uninvolved files" check)
    involved: Vec<String>,
    read_only: bool,
    prep: Box<dyn Fn(&Ctx)>,
    op: OpFn,
}

fn e2s<T: std::fmt::Debug>(r: Result<T, Error<DevErr>>) -> Result<String, String> {
    match r {
        Ok(v) => Ok(format!("{:?}", v)),
        Err(e) => Err(format!("{:?}", e)),
    }
}

fn scenarios() -> Vec<Scn> {
    let mut v: Vec<Scn> = Vec::new();
    let noprep = || -> Box<dyn Fn(&Ctx)> { Box::new(|_| {}) };

    // lookups
    for (dirsel, pfx) in [(0, "R"), (1, "S")] {
        for name in ["00.TXT", "39.TXT", "20.TXT", "ZZ.TXT"] {
            let full = format!("{}{}", pfx, name);
            let f2 = full.clone();
            v.push(Scn {
                name: format!("find {} in {}", full, dirsel),
                involved: vec![],
                read_only: true,
                prep: noprep(),
                op: Box::new(move |c| {
                    let d = if dirsel == 0 { c.root } else { c.sub };
                    match c.mgr.find_directory_entry(d, f2.as_str()) {
                        Ok(e) => Ok(format!("{} {} {:?}", e.name, e.size, e.cluster)),
                        Err(e) => Err(format!("{:?}", e)),
                    }
                }),
            });
        }
        v.push(Scn {
            name: format!("iterate {}", dirsel),
            involved: vec![],
            read_only: true,
            prep: noprep(),
            op: Box::new(move |c| {
                let d = if dirsel == 0 { c.root } else { c.sub };
                list(&c.mgr, d).map(|l| format!("{:?}", l))
            }),
        });
        v.push(Scn {
            name: format!("iterate_lfn {}", dirsel),
            involved: vec![],
            read_only: true,
            prep: noprep(),
            op: Box::new(move |c| {
                let d = if dirsel == 0 { c.root } else { c.sub };
                let mut st = [0u8; 256];
                let mut lb = LfnBuffer::new(&mut st);
                let mut out = Vec::new();
                match c.mgr.iterate_dir_lfn(d, &mut lb, |e, l| {
                    out.push(format!("{} {:?}", e.name, l));
                }) {
                    Ok(()) => Ok(format!("{:?}", out)),
                    Err(e) => Err(format!("{:?}", e)),
                }
            }),
        });
    }
    v.push(Scn {
        name: "label".into(),
        involved: vec![],
        read_only: true,
        prep: noprep(),
        op: Box::new(|c| e2s(c.mgr.get_root_volume_label(c.vol))),
    });
    v.push(Scn {
        name: "open_dir SUB".into(),
        involved: vec![],
        read_only: true,
        prep: noprep(),
        op: Box::new(|c| match c.mgr.open_dir(c.root, "SUB") {
            Ok(d) => {
                c.dirs.borrow_mut().push(d);
                Ok("ok".into())
            }
            Err(e) => Err(format!("{:?}", e)),
        }),
    });
    v.push(Scn {
        name: "open_dir DEEP".into(),
        involved: vec![],
        read_only: true,
        prep: noprep(),
        op: Box::new(|c| match c.mgr.open_dir(c.sub, "DEEP") {
            Ok(d) => {
                c.dirs.borrow_mut().push(d);
                Ok("ok".into())
            }
            Err(e) => Err(format!("{:?}", e)),
        }),
    });
    v.push(Scn {
        name: "open_dir NOPE".into(),
        involved: vec![],
        read_only: true,
        prep: noprep(),
        op: Box::new(|c| match c.mgr.open_dir(c.sub, "NOPE") {
            Ok(d) => {
                c.dirs.borrow_mut().push(d);
                Ok("ok".into())
            }
            Err(e) => Err(format!("{:?}", e)),
        }),
    });

    // open in every mode, existing and not
    for (dirsel, pfx) in [(0, "R"), (1, "S")] {
        for mode in [
            Mode::ReadOnly,
            Mode::ReadWriteAppend,
            Mode::ReadWriteTruncate,
            Mode::ReadWriteCreate,
            Mode::ReadWriteCreateOrTruncate,
            Mode::ReadWriteCreateOrAppend,
        ] {
            for name in ["39.TXT", "NEW.TXT", "03.TXT"] {
                let full = format!("{}{}", pfx, name);
                let path = if dirsel == 0 {
                    format!("/{}", full)
                } else {
                    format!("/SUB/{}", full)
                };
                let f2 = full.clone();
                v.push(Scn {
                    name: format!("open {} {:?}", path, mode),
                    involved: vec![path.clone()],
                    read_only: mode == Mode::ReadOnly,
                    prep: noprep(),
                    op: Box::new(move |c| {
                        let d = if dirsel == 0 { c.root } else { c.sub };
                        match c.mgr.open_file_in_dir(d, f2.as_str(), mode) {
                            Ok(f) => {
                                let len = c.mgr.file_length(f).unwrap();
                                let off = c.mgr.file_offset(f).unwrap();
                                c.files.borrow_mut().push(f);
                                Ok(format!("open len {} off {}", len, off))
                            }
                            Err(e) => Err(format!("{:?}", e)),
                        }
                    }),
                });
            }
        }
        // create with many names so the directory must grow
        {
            let path = if dirsel == 0 { "/" } else { "/SUB/" };
            v.push(Scn {
                name: format!("create 12 files in {}", path),
                involved: (0..12).map(|i| format!("{}N{}.TXT", path, i)).collect(),
                read_only: false,
                prep: noprep(),
                op: Box::new(move |c| {
                    let d = if dirsel == 0 { c.root } else { c.sub };
                    for i in 0..12 {
                        let n = format!("N{}.TXT", i);
                        match c.mgr.open_file_in_dir(d, n.as_str(), Mode::ReadWriteCreate) {
                            Ok(f) => {
                                c.files.borrow_mut().push(f);
                                let f = c.files.borrow_mut().pop().unwrap();
                                c.mgr
                                    .close_file(f)
                                    .map_err(|e| format!("close {:?}", e))?;
                            }
                            Err(e) => return Err(format!("{:?}", e)),
                        }
                    }
                    Ok("ok".into())
                }),
            });
        }
        // delete
        for name in ["03.TXT", "39.TXT", "00.TXT", "ZZ.TXT"] {
            let full = format!("{}{}", pfx, name);
            let path = if dirsel == 0 {
                format!("/{}", full)
            } else {
                format!("/SUB/{}", full)
            };
            v.push(Scn {
                name: format!("delete {}", path),
                involved: vec![path.clone()],
                read_only: false,
                prep: noprep(),
                op: Box::new(move |c| {
                    let d = if dirsel == 0 { c.root } else { c.sub };
                    e2s(c.mgr.delete_file_in_dir(d, full.as_str()))
                }),
            });
        }
        // mkdir
        {
            let path = if dirsel == 0 { "/NEWDIR" } else { "/SUB/NEWDIR" };
            v.push(Scn {
                name: format!("mkdir {}", path),
                involved: vec![path.to_string()],
                read_only: false,
                prep: noprep(),
                op: Box::new(move |c| {
                    let d = if dirsel == 0 { c.root } else { c.sub };
                    e2s(c.mgr.make_dir_in_dir(d, "NEWDIR"))
                }),
            });
        }
        // read a 3-cluster file completely
        {
            let full = format!("{}39.TXT", pfx);
            let path = if dirsel == 0 {
                format!("/{}", full)
            } else {
                format!("/SUB/{}", full)
            };
            let f2 = full.clone();
            v.push(Scn {
                name: format!("read {}", path),
                involved: vec![path.clone()],
                read_only: true,
                prep: Box::new(move |c| {
                    let d = if dirsel == 0 { c.root } else { c.sub };
                    let f = c.mgr.open_file_in_dir(d, f2.as_str(), Mode::ReadOnly).unwrap();
                    c.files.borrow_mut().push(f);
                }),
                op: Box::new(move |c| {
                    let f = c.files.borrow()[0];
                    let mut buf = [0u8; 1300];
                    match c.mgr.read(f, &mut buf) {
                        Ok(n) => Ok(format!("{} {:?}", n, &buf[..n] == &content(&full, 1300)[..n])),
                        Err(e) => Err(format!("{:?}", e)),
                    }
                }),
            });
        }
        // write: append to 39 (1300 bytes), overwrite, then flush, then close
        for kind in ["append", "overwrite", "newfile"] {
            let full = if kind == "newfile" {
                format!("{}NEW.TXT", pfx)
            } else {
                format!("{}39.TXT", pfx)
            };
            let path = if dirsel == 0 {
                format!("/{}", full)
            } else {
                format!("/SUB/{}", full)
            };
            for step in ["write", "flush", "close"] {
                let f2 = full.clone();
                v.push(Scn {
                    name: format!("{} {} {}", kind, step, path),
                    involved: vec![path.clone()],
                    read_only: false,
                    prep: Box::new(move |c| {
                        let d = if dirsel == 0 { c.root } else { c.sub };
                        let mode = match kind {
                            "append" => Mode::ReadWriteAppend,
                            "overwrite" => Mode::ReadWriteAppend,
                            _ => Mode::ReadWriteCreate,
                        };
                        let f = c.mgr.open_file_in_dir(d, f2.as_str(), mode).unwrap();
                        if kind == "overwrite" {
                            c.mgr.file_seek_from_start(f, 100).unwrap();
                        }
                        c.files.borrow_mut().push(f);
                        if step != "write" {
                            c.mgr.write(f, &content("x", 1500)).unwrap();
                        }
                    }),
                    op: Box::new(move |c| {
                        if c.files.borrow().is_empty() {
                            return Err("handle already closed".into());
                        }
                        let f = c.files.borrow()[0];
                        match step {
                            "write" => e2s(c.mgr.write(f, &content("x", 1500))),
                            "flush" => e2s(c.mgr.flush_file(f)),
                            _ => {
                                c.files.borrow_mut().clear();
                                e2s(c.mgr.close_file(f))
                            }
                        }
                    }),
                });
            }
        }
    }
    v
}

fn new_ctx<'a>(disk: &'a Disk) -> Ctx<'a> {
    let mgr: Mgr = VolumeManager::new_with_limits(Dev(disk), Clock, 100);
    let vol = mgr.open_raw_volume(VolumeIdx(0)).unwrap();
    let root = mgr.open_root_dir(vol).unwrap();
    let sub = mgr.open_dir(root, "SUB").unwrap();
    Ctx {
        mgr,
        disk,
        vol,
        root,
        sub,
        files: RefCell::new(Vec::new()),
        dirs: RefCell::new(Vec::new()),
    }
}

fn without(s: &Snap, involved: &[String]) -> Snap {
    let mut s = s.clone();
    for p in involved {
        s.files.remove(p);
    }
    // directory listings: drop involved names + sizes
    for (d, l) in s.dirs.iter_mut() {
        l.retain(|(n, _, _)| !involved.iter().any(|p| *p == format!("{}{}", d, n)));
    }
    // a new subdirectory's own listing
    let keys: Vec<String> = s.dirs.keys().cloned().collect();
    for k in keys {
        if involved.iter().any(|p| format!("{}/", p) == k) {
            s.dirs.remove(&k);
        }
    }
    s
}

fn sweep(fat32: bool) -> Vec<String> {
    let base = base(fat32);
    let base_snap = snap_medium(&base).unwrap();
    assert!(dup_names(&base_snap).is_empty());
    let mut findings = Vec::new();
    let filter = std::env::var("C11_FILTER").ok();
    for scn in scenarios() {
        if let Some(f) = &filter {
            if !scn.name.contains(f.as_str()) {
                continue;
            }
        }
        // golden run
        let disk = base.fork();
        let (golden, ncalls) = {
            let ctx = new_ctx(&disk);
            (scn.prep)(&ctx);
            disk.arm(Fault::None);
            let g = (scn.op)(&ctx);
            (g, disk.calls.get())
        };
        if std::env::var("C11_VERBOSE").is_ok() {
            eprintln!(
                "[{}] {}: {} device calls, golden {:?}",
                if fat32 { "FAT32" } else { "FAT16" },
                scn.name,
                ncalls,
                golden.as_ref().map(|s| &s[..s.len().min(60)])
            );
        }
        for k in 0..ncalls {
            for (persistent, follow) in [(false, 0), (true, 0), (false, 1), (false, 2)] {
                if follow > 0 && scn.read_only {
                    continue;
                }
                let tag = format!(
                    "[{}] {} / call {} of {} {} follow{}",
                    if fat32 { "FAT32" } else { "FAT16" },
                    scn.name,
                    k,
                    ncalls,
                    if persistent { "persistent" } else { "once" },
                    follow
                );
                let disk = base.fork();
                let ctx = new_ctx(&disk);
                (scn.prep)(&ctx);
                disk.arm(if persistent { Fault::From(k) } else { Fault::Once(k) });
                let r = catch_unwind(AssertUnwindSafe(|| (scn.op)(&ctx)));
                let fired = disk.fired.get();
                let trace: Vec<(char, u32, bool)> = disk.log.borrow().clone();
                disk.disarm();
                let r = match r {
                    Err(_) => {
                        findings.push(format!("{}: PANIC; trace {:?}", tag, trace));
                        continue;
                    }
                    Ok(r) => r,
                };
                if fired > 0 && r.is_ok() {
                    findings.push(format!(
                        "{}: OK-DESPITE-FAULT result {:?}; trace {:?}",
                        tag, r, trace
                    ));
                }
                if fired == 0 {
                    continue;
                }
                if follow >= 1 {
                    let r2 = if follow == 1 {
                        catch_unwind(AssertUnwindSafe(|| (scn.op)(&ctx)))
                    } else {
                        Ok(Ok("(no retry)".to_string()))
                    };
                    let mut note = format!("retry {:?}", r2);
                    if r2.is_err() {
                        findings.push(format!("{}: PANIC on retry of mutating op", tag));
                        continue;
                    }
                    if follow == 2 {
                        let r3 = catch_unwind(AssertUnwindSafe(|| {
                            let mut out = Vec::new();
                            for p in scn.involved.iter() {
                                let (d, n) = if let Some(n) = p.strip_prefix("/SUB/") {
                                    (ctx.sub, n)
                                } else {
                                    (ctx.root, &p[1..])
                                };
                                if n.ends_with(".TXT") {
                                    match ctx.mgr.open_file_in_dir(d, n, Mode::ReadWriteCreateOrAppend) {
                                        Ok(f) => {
                                            out.push(format!("{:?}", ctx.mgr.close_file(f)));
                                        }
                                        Err(e) => out.push(format!("{:?}", e)),
                                    }
                                }
                            }
                            out
                        }));
                        note = format!("{} then create {:?}", note, r3);
                    }
                    if std::env::var("C11_VERBOSE").is_ok() {
                        eprintln!("{}: first {:?} {}", tag, r, note);
                    }
                    if let Ok(s) = snap_medium(&disk) {
                        let d = dup_names(&s);
                        if !d.is_empty() {
                            findings.push(format!("{}: DUPLICATE names {:?} after {}; trace {:?}", tag, d, note, trace));
                        }
                        let a = without(&s, &scn.involved);
                        let b = without(&base_snap, &scn.involved);
                        if a != b {
                            findings.push(format!("{}: UNINVOLVED changed after {}; trace {:?}", tag, note, trace));
                        }
                        for p in scn.involved.iter() {
                            if let Some(Err(e)) = s.files.get(p) {
                                findings.push(format!("{}: INVOLVED file {} unreadable ({}) after {}; first {:?}; trace {:?}", tag, p, e, note, r, trace));
                            }
                        }
                    } else {
                        findings.push(format!("{}: medium unreadable after {}", tag, note));
                    }
                    continue;
                }
                // medium checks
                match snap_medium(&disk) {
                    Err(e) => findings.push(format!("{}: medium unreadable afterwards: {}", tag, e)),
                    Ok(s) => {
                        let d = dup_names(&s);
                        if !d.is_empty() {
                            findings.push(format!("{}: DUPLICATE names {:?}", tag, d));
                        }
                        let a = without(&s, &scn.involved);
                        let b = without(&base_snap, &scn.involved);
                        if a != b {
                            let mut diff = Vec::new();
                            for (k, v) in b.files.iter() {
                                if a.files.get(k) != Some(v) {
                                    diff.push(k.clone());
                                }
                            }
                            for (k, v) in b.dirs.iter() {
                                if a.dirs.get(k) != Some(v) {
                                    diff.push(format!("dir {}", k));
                                }
                            }
                            findings.push(format!(
                                "{}: UNINVOLVED changed on medium: {:?}; trace {:?}",
                                tag, diff, trace
                            ));
                        }
                        // cache coherence: what the live manager sees vs the medium
                        if !persistent {
                            let live = catch_unwind(AssertUnwindSafe(|| {
                                let mut out = BTreeMap::new();
                                out.insert("/".to_string(), list(&ctx.mgr, ctx.root));
                                out.insert("/SUB/".to_string(), list(&ctx.mgr, ctx.sub));
                                out
                            }));
                            match live {
                                Err(_) => findings.push(format!("{}: PANIC in later listing", tag)),
                                Ok(live) => {
                                    for (d, l) in live {
                                        match l {
                                            Err(e) => findings.push(format!(
                                                "{}: later listing of {} fails {}",
                                                tag, d, e
                                            )),
                                            Ok(l) => {
                                                if Some(&l) != s.dirs.get(&d) {
                                                    findings.push(format!(
                                                        "{}: PHANTOM live listing of {} differs from the medium; trace {:?}",
                                                        tag, d, trace
                                                    ));
                                                }
                                            }
                                        }
                                    }
                                }
                            }
                        }
                    }
                }
                if !persistent {
                    // retry of read-only ops
                    if scn.read_only && r.is_err() {
                        let r2 = catch_unwind(AssertUnwindSafe(|| (scn.op)(&ctx)));
                        match r2 {
                            Err(_) => findings.push(format!("{}: PANIC on retry", tag)),
                            Ok(r2) => {
                                if r2 != golden {
                                    findings.push(format!(
                                        "{}: RETRY differs: first {:?}, retry {:?}, golden {:?}; trace {:?}",
                                        tag, r, r2, golden, trace
                                    ));
                                }
                            }
                        }
                    }
                    // handles still usable / closable
                    let closing = catch_unwind(AssertUnwindSafe(|| {
                        let mut errs = Vec::new();
                        for f in ctx.files.borrow().iter() {
                            if let Err(e) = ctx.mgr.file_length(*f) {
                                errs.push(format!("file_length {:?}", e));
                            }
                            if let Err(e) = ctx.mgr.close_file(*f) {
                                errs.push(format!("close_file {:?}", e));
                            }
                        }
                        for d in ctx.dirs.borrow().iter() {
                            if let Err(e) = ctx.mgr.close_dir(*d) {
                                errs.push(format!("close_dir {:?}", e));
                            }
                        }
                        if let Err(e) = ctx.mgr.close_dir(ctx.sub) {
                            errs.push(format!("close_dir sub {:?}", e));
                        }
                        if let Err(e) = ctx.mgr.close_dir(ctx.root) {
                            errs.push(format!("close_dir root {:?}", e));
                        }
                        if let Err(e) = ctx.mgr.close_volume(ctx.vol) {
                            errs.push(format!("close_volume {:?}", e));
                        }
                        if ctx.mgr.has_open_handles() {
                            errs.push("handles left open".into());
                        }
                        errs
                    }));
                    match closing {
                        Err(_) => findings.push(format!("{}: PANIC while closing", tag)),
                        Ok(errs) => {
                            if !errs.is_empty() {
                                findings.push(format!("{}: CLOSE problems {:?}", tag, errs));
                            }
                        }
                    }
                    // after closing everything, duplicates again
                    if let Ok(s) = snap_medium(&disk) {
                        let d = dup_names(&s);
                        if !d.is_empty() {
                            findings.push(format!("{}: DUPLICATE names after close {:?}", tag, d));
                        }
                        let a = without(&s, &scn.involved);
                        let b = without(&base_snap, &scn.involved);
                        if a != b {
                            findings.push(format!("{}: UNINVOLVED changed after close", tag));
                        }
                    }
                }
            }
        }
    }
    findings
}

fn report(f: Vec<String>) {
    let mut kinds: BTreeMap<String, usize> = BTreeMap::new();
    for x in f.iter() {
        let k = x
            .split(": ")
            .nth(1)
            .unwrap_or("")
            .split_whitespace()
            .next()
            .unwrap_or("")
            .to_string();
        *kinds.entry(k).or_default() += 1;
    }
    let limit: usize = std::env::var("C11_LIMIT")
        .ok()
        .and_then(|s| s.parse().ok())
        .unwrap_or(60);
    for x in f.iter().take(limit) {
        let cut = x.len().min(900);
        eprintln!("{}", &x[..cut]);
    }
    eprintln!("SUMMARY {:?} total {}", kinds, f.len());
    assert!(f.is_empty());
}

#[test]
fn sweep_fat16() {
    std::panic::set_hook(Box::new(|_| {}));
    report(sweep(false));
}

#[test]
fn sweep_fat32() {
    std::panic::set_hook(Box::new(|_| {}));
    report(sweep(true));
}

// ---------------------------------------------------------------- random multi-fault

fn random_run(fat32: bool, seed: u64, steps: usize) -> Vec<String> {
    let disk = mkfs(fat32);
    disk.rng.set(seed | 1);
    let rng = Cell::new(seed.wrapping_mul(0x2545F4914F6CDD1D) | 1);
    let mut findings = Vec::new();
    let mgr: Mgr = VolumeManager::new_with_limits(Dev(&disk), Clock, 100);
    let vol = mgr.open_raw_volume(VolumeIdx(0)).unwrap();
    let root = mgr.open_root_dir(vol).unwrap();
    mgr.make_dir_in_dir(root, "SUB").unwrap();
    let sub = mgr.open_dir(root, "SUB").unwrap();
    // model: path -> content ; tainted: paths whose state is unknown
    let mut model: BTreeMap<String, Vec<u8>> = BTreeMap::new();
    let mut tainted: std::collections::BTreeSet<String> = Default::default();
    let tag = format!("[{} seed {}]", if fat32 { "FAT32" } else { "FAT16" }, seed);
    let mut prev = (0u64, String::new());
    for step in 0..steps {
        let reuse = xs(&rng) % 2 == 0 && step > 0;
        let dsel = if reuse { prev.0 } else { xs(&rng) % 2 };
        let (d, dpath) = if dsel == 0 { (root, "/") } else { (sub, "/SUB/") };
        let name = if reuse { prev.1.clone() } else { format!("F{}.TXT", xs(&rng) % 24) };
        prev = (dsel, name.clone());
        let path = format!("{}{}", dpath, name);
        let op = xs(&rng) % 8;
        let pm = if xs(&rng) % 3 == 0 { 0 } else { 40 + xs(&rng) % 100 };
        let len = (xs(&rng) % 1800) as usize;
        let data = content(&format!("{}{}", path, step), len);
        disk.arm(if pm == 0 { Fault::None } else { Fault::Prob(pm) });
        let desc = format!("{} step {} op {} {} pm {}", tag, step, op, path, pm);
        let res = catch_unwind(AssertUnwindSafe(|| -> (Vec<String>, bool) {
            // returns (results per api call, all ok)
            let mut out = Vec::new();
            let mut ok = true;
            let mut fired_before = disk.fired.get();
            let mut check = |label: &str, is_ok: bool, out: &mut Vec<String>| {
                let fired_now = disk.fired.get();
                if fired_now > fired_before && is_ok {
                    out.push(format!("OK-DESPITE-FAULT in {}", label));
                }
                fired_before = fired_now;
            };
            match op {
                0 | 1 | 2 => {
                    let mode = if op == 2 { Mode::ReadWriteCreateOrAppend } else { Mode::ReadWriteCreateOrTruncate };
                    match mgr.open_file_in_dir(d, name.as_str(), mode) {
                        Ok(f) => {
                            check("open", true, &mut out);
                            let w = mgr.write(f, &data);
                            check("write", w.is_ok(), &mut out);
                            ok &= w.is_ok();
                            let c = mgr.close_file(f);
                            check("close", c.is_ok(), &mut out);
                            ok &= c.is_ok();
                        }
                        Err(e) => {
                            check("open", false, &mut out);
                            out.push(format!("open err {:?}", e));
                            ok = false;
                        }
                    }
                }
                3 => {
                    let r = mgr.delete_file_in_dir(d, name.as_str());
                    check("delete", r.is_ok(), &mut out);
                    if let Err(e) = &r {
                        out.push(format!("delete err {:?}", e));
                    }
                    ok = r.is_ok();
                }
                4 => {
                    match mgr.open_file_in_dir(d, name.as_str(), Mode::ReadOnly) {
                        Ok(f) => {
                            check("open", true, &mut out);
                            let mut buf = vec![0u8; 5000];
                            let mut got = Vec::new();
                            loop {
                                let r = mgr.read(f, &mut buf[..700]);
                                check("read", r.is_ok(), &mut out);
                                match r {
                                    Ok(0) => break,
                                    Ok(n) => got.extend_from_slice(&buf[..n]),
                                    Err(_) => { ok = false; break; }
                                }
                            }
                            let c = mgr.close_file(f);
                            check("close", c.is_ok(), &mut out);
                            if ok {
                                out.push(format!("READ {}", got.iter().map(|b| format!("{:02x}", b)).collect::<String>()));
                            }
                        }
                        Err(e) => {
                            check("open", false, &mut out);
                            out.push(format!("open err {:?}", e));
                            ok = false;
                        }
                    }
                }
                5 => {
                    let r = mgr.find_directory_entry(d, name.as_str());
                    check("find", r.is_ok(), &mut out);
                    match r {
                        Ok(e) => out.push(format!("FOUND {}", e.size)),
                        Err(e) => { out.push(format!("find err {:?}", e)); ok = false; }
                    }
                }
                6 => {
                    let r = list(&mgr, d);
                    check("iterate", r.is_ok(), &mut out);
                    match r {
                        Ok(l) => out.push(format!("LIST {}", l.iter().map(|x| x.0.clone()).collect::<Vec<_>>().join(","))),
                        Err(_) => ok = false,
                    }
                }
                _ => {
                    let dn = format!("D{}", xs(&rng) % 4);
                    let r = mgr.make_dir_in_dir(d, dn.as_str());
                    check("mkdir", r.is_ok(), &mut out);
                    ok = r.is_ok();
                }
            }
            (out, ok)
        }));
        let fired = disk.fired.get();
        disk.disarm();
        let (out, ok) = match res {
            Err(_) => {
                findings.push(format!("{}: PANIC", desc));
                break;
            }
            Ok(x) => x,
        };
        for o in out.iter() {
            if o.starts_with("OK-DESPITE") {
                findings.push(format!("{}: {}", desc, o));
            }
        }
        // update the model
        match op {
            0 | 1 => {
                if ok { model.insert(path.clone(), data.clone()); tainted.remove(&path); }
                else { model.remove(&path); tainted.insert(path.clone()); }
            }
            2 => {
                if ok && !tainted.contains(&path) { model.entry(path.clone()).or_default().extend_from_slice(&data); }
                else { model.remove(&path); tainted.insert(path.clone()); }
            }
            3 => {
                if ok { 
                    if !model.contains_key(&path) && !tainted.contains(&path) {
                        findings.push(format!("{}: delete Ok of a file that should not exist", desc));
                    }
                    model.remove(&path); tainted.remove(&path);
                } else if fired > 0 { model.remove(&path); tainted.insert(path.clone()); }
                else if model.contains_key(&path) {
                    findings.push(format!("{}: fault-free delete of existing file failed {:?}", desc, out));
                }
            }
            4 => {
                if fired == 0 && !tainted.contains(&path) {
                    match model.get(&path) {
                        Some(c) => {
                            let want = format!("READ {}", c.iter().map(|b| format!("{:02x}", b)).collect::<String>());
                            if !out.iter().any(|o| *o == want) {
                                findings.push(format!("{}: fault-free read differs from model ({:?})", desc, out.iter().map(|o| o.chars().take(60).collect::<String>()).collect::<Vec<_>>()));
                            }
                        }
                        None => if ok { findings.push(format!("{}: read of a file that should not exist", desc)); }
                    }
                }
            }
            5 => {
                if fired == 0 && !tainted.contains(&path) {
                    let want_found = model.contains_key(&path);
                    if ok != want_found {
                        findings.push(format!("{}: fault-free find says {:?}, model says exists={}", desc, out, want_found));
                    }
                }
            }
            6 => {
                if fired == 0 && ok {
                    let l = out.iter().find(|o| o.starts_with("LIST ")).unwrap()[5..].to_string();
                    let names: Vec<&str> = l.split(',').collect();
                    for (p, _) in model.iter() {
                        if let Some(n) = p.strip_prefix(dpath) {
                            if !n.contains('/') && !names.contains(&n) {
                                findings.push(format!("{}: fault-free listing misses {}", desc, p));
                            }
                        }
                    }
                    let mut seen = std::collections::BTreeSet::new();
                    for n in names.iter() {
                        if !seen.insert(*n) { findings.push(format!("{}: live listing has duplicate {}", desc, n)); }
                    }
                }
            }
            _ => {}
        }
        // medium check
        match snap_medium(&disk) {
            Err(e) => { findings.push(format!("{}: medium unreadable {}", desc, e)); break; }
            Ok(s) => {
                let dups = dup_names(&s);
                if !dups.is_empty() {
                    findings.push(format!("{}: DUPLICATE on medium {:?}", desc, dups));
                    break;
                }
                for (p, c) in model.iter() {
                    match s.files.get(p) {
                        Some(Ok(x)) if x == c => {}
                        other => {
                            findings.push(format!("{}: UNINVOLVED/committed file {} wrong on medium: {:?}", desc, p, other.map(|r| r.as_ref().map(|v| v.len()))));
                        }
                    }
                }
                if findings.len() > 5 { break; }
            }
        }
    }
    findings
}

#[test]
fn random_faults() {
    std::panic::set_hook(Box::new(|_| {}));
    let mut all = Vec::new();
    let seeds: u64 = std::env::var("C11_SEEDS").ok().and_then(|s| s.parse().ok()).unwrap_or(20);
    for seed in 1..=seeds {
        for fat32 in [false, true] {
            all.extend(random_run(fat32, seed * 7919, 120));
        }
    }
    report(all);
}

#[test]
fn open_close_volume_under_faults() {
    for fat32 in [false, true] {
        let b = base(fat32);
        // golden
        let n = {
            let d = b.fork();
            let mgr: Mgr = VolumeManager::new_with_limits(Dev(&d), Clock, 100);
            d.arm(Fault::None);
            let v = mgr.open_raw_volume(VolumeIdx(0)).unwrap();
            let _ = mgr.get_root_volume_label(v).unwrap();
            mgr.close_volume(v).unwrap();
            d.calls.get()
        };
        eprintln!("fat32={} calls {}", fat32, n);
        for k in 0..n {
            let d = b.fork();
            let mgr: Mgr = VolumeManager::new_with_limits(Dev(&d), Clock, 100);
            d.arm(Fault::Once(k));
            let v = match mgr.open_raw_volume(VolumeIdx(0)) {
                Ok(v) => v,
                Err(e) => {
                    assert!(d.fired.get() > 0, "{:?}", e);
                    d.disarm();
                    mgr.open_raw_volume(VolumeIdx(0)).expect("retry open")
                }
            };
            let before = d.fired.get();
            match mgr.get_root_volume_label(v) {
                Ok(l) => {
                    assert_eq!(d.fired.get(), before, "label Ok despite fault");
                    assert_eq!(l, None);
                }
                Err(_) => {
                    assert!(d.fired.get() > before);
                    assert_eq!(mgr.get_root_volume_label(v).expect("retry label"), None);
                }
            }
            assert!(!mgr.has_open_handles(), "label leaked a dir handle at k={}", k);
            let before = d.fired.get();
            match mgr.close_volume(v) {
                Ok(()) => assert_eq!(d.fired.get(), before, "close Ok despite fault"),
                Err(_) => {
                    assert!(d.fired.get() > before);
                    mgr.close_volume(v).expect("retry close");
                }
            }
            mgr.open_raw_volume(VolumeIdx(0)).expect("reopen");
        }
    }
}

#[test]
fn lost_fat_link_experiment() {
    for fat32 in [false, true] {
        let d = mkfs(fat32);
        let mgr: Mgr = VolumeManager::new_with_limits(Dev(&d), Clock, 100);
        let v = mgr.open_raw_volume(VolumeIdx(0)).unwrap();
        let root = mgr.open_root_dir(v).unwrap();
        let f = mgr.open_file_in_dir(root, "A.BIN", Mode::ReadWriteCreate).unwrap();
        mgr.write(f, &content("a", 512)).unwrap();
        mgr.close_file(f).unwrap();
        let f = mgr.open_file_in_dir(root, "A.BIN", Mode::ReadWriteAppend).unwrap();
        // golden count
        let n = {
            let d2 = d.fork();
            let mgr2: Mgr = VolumeManager::new_with_limits(Dev(&d2), Clock, 100);
            let v2 = mgr2.open_raw_volume(VolumeIdx(0)).unwrap();
            let r2 = mgr2.open_root_dir(v2).unwrap();
            let f2 = mgr2.open_file_in_dir(r2, "A.BIN", Mode::ReadWriteAppend).unwrap();
            d2.arm(Fault::None);
            mgr2.write(f2, &content("b", 100)).unwrap();
            eprintln!("trace {:?}", d2.log.borrow());
            d2.calls.get()
        };
        let _ = (f, n);
        for k in 0..n {
            let d2 = d.fork();
            let mgr2: Mgr = VolumeManager::new_with_limits(Dev(&d2), Clock, 100);
            let v2 = mgr2.open_raw_volume(VolumeIdx(0)).unwrap();
            let r2 = mgr2.open_root_dir(v2).unwrap();
            let f2 = mgr2.open_file_in_dir(r2, "A.BIN", Mode::ReadWriteAppend).unwrap();
            d2.arm(Fault::Once(k));
            let r = mgr2.write(f2, &content("b", 100));
            d2.disarm();
            let mut retry = None;
            if r.is_err() {
                retry = Some(mgr2.write(f2, &content("b", 100)));
            }
            let c = mgr2.close_file(f2);
            let s = snap_medium(&d2).unwrap();
            let mut want = content("a", 512);
            want.extend(content("b", 100));
            let got = s.files.get("/A.BIN").unwrap();
            eprintln!(
                "fat32={} k={} first {:?} retry {:?} close {:?} medium {}",
                fat32, k, r, retry, c,
                match got { Ok(x) => format!("{} bytes, correct={}", x.len(), *x == want), Err(e) => format!("ERR {}", e) }
            );
        }
    }
}
