//! C11 bug 1: after a FAILED block write the single-block cache keeps the
//! modified block and keeps its tag, so the library goes on answering from a
//! block that was never stored.  A failed `delete_file_in_dir` therefore makes
//! the next lookup say `NotFound` for a file that is still on the medium, and
//! the next create puts a SECOND entry with the same name into the directory.
//!
//! Clause violated (C11): "a failed call never makes a directory hold two
//! entries with the same name" (test `failed_delete_then_create_duplicates_the_name`)
//! and "it never returns ... a fabricated answer such as ... NotFound"/"a
//! block-device error is ... never swallowed" (test
//! `failed_delete_makes_the_file_invisible`).
//!
//! What should have happened: the delete reports `DeviceError` (it does), and
//! because the write did not reach the medium the file F03.TXT is still there:
//! a later lookup has to find it, and an open with `ReadWriteCreateOrTruncate`
//! has to truncate the one existing entry, not add another.
//!
//! Root cause: `BlockCache::write_back` / `write_back_with_duplicate`
//! (src/blockdevice.rs:133-150) leave `block_idx` set when the device write
//! fails (`blank_mut`, line 153, even sets the tag before anything is written).
//! `delete_entry_in_block` (src/fat/volume.rs:1021-1036) has already put 0xE5
//! into the cached copy; `find_entry_in_block` (line 894) gets a cache hit on
//! that copy, walks on (which finally evicts it) and reports NotFound;
//! `write_new_directory_entry` then re-reads the block from the medium, where
//! the old entry is still valid, and uses another free slot.
//!
//! The same stale tag on a FAT sector (test
//! `retried_append_reports_success_but_the_chain_link_was_never_stored`): the
//! write that links a file's new cluster fails -> `write` returns an error;
//! the retry walks the FAT through the cached, never-written sector, finds the
//! "link", stores the data and returns Ok, close returns Ok - and on the
//! medium the file's size covers a cluster its chain does not reach: the
//! device error has been swallowed and the file cannot be read any more.
//!
//! Self-contained: a sparse in-memory block device, a tiny mkfs, no files.

use embedded_sdmmc::{
    Block, BlockCount, BlockDevice, BlockIdx, Error, Mode, TimeSource, Timestamp, VolumeIdx,
    VolumeManager,
};
use std::cell::{Cell, RefCell};
use std::collections::HashMap;

struct Disk {
    blocks: RefCell<HashMap<u32, [u8; 512]>>,
    nblocks: u32,
    /// fail the next write call (once) ...
    fail_next_write: Cell<bool>,
    /// ... after letting this many writes through
    skip_writes: Cell<u32>,
    failed: Cell<u32>,
}

#[derive(Debug, Clone, PartialEq)]
struct DevErr;

struct Dev<'a>(&'a Disk);

impl<'a> BlockDevice for Dev<'a> {
    type Error = DevErr;
    fn read(&self, blocks: &mut [Block], start: BlockIdx) -> Result<(), DevErr> {
        for (i, b) in blocks.iter_mut().enumerate() {
            let idx = start.0 + i as u32;
            assert!(idx < self.0.nblocks);
            b.contents = self
                .0
                .blocks
                .borrow()
                .get(&idx)
                .copied()
                .unwrap_or([0u8; 512]);
        }
        Ok(())
    }
    fn write(&self, blocks: &[Block], start: BlockIdx) -> Result<(), DevErr> {
        if self.0.fail_next_write.get() {
            if self.0.skip_writes.get() == 0 {
                self.0.fail_next_write.set(false);
                self.0.failed.set(self.0.failed.get() + 1);
                return Err(DevErr);
            }
            self.0.skip_writes.set(self.0.skip_writes.get() - 1);
        }
        for (i, b) in blocks.iter().enumerate() {
            let idx = start.0 + i as u32;
            assert!(idx < self.0.nblocks);
            self.0.blocks.borrow_mut().insert(idx, b.contents);
        }
        Ok(())
    }
    fn num_blocks(&self) -> Result<BlockCount, DevErr> {
        Ok(BlockCount(self.0.nblocks))
    }
}

struct Clock;
impl TimeSource for Clock {
    fn get_timestamp(&self) -> Timestamp {
        Timestamp {
            year_since_1970: 40,
            zero_indexed_month: 1,
            zero_indexed_day: 1,
            hours: 1,
            minutes: 2,
            seconds: 4,
        }
    }
}

fn put16(b: &mut [u8], off: usize, v: u16) {
    b[off..off + 2].copy_from_slice(&v.to_le_bytes());
}
fn put32(b: &mut [u8], off: usize, v: u32) {
    b[off..off + 4].copy_from_slice(&v.to_le_bytes());
}

/// One partition at block 1, one sector per cluster, two FATs.
fn mkfs(fat32: bool) -> Disk {
    let clusters: u32 = if fat32 { 65600 } else { 4200 };
    let reserved: u32 = if fat32 { 32 } else { 1 };
    let root_entries: u32 = if fat32 { 0 } else { 64 };
    let root_blocks = root_entries * 32 / 512;
    let fat_size = if fat32 {
        ((clusters + 2) * 4 + 511) / 512
    } else {
        ((clusters + 2) * 2 + 511) / 512
    };
    let total = reserved + 2 * fat_size + root_blocks + clusters;
    let disk = Disk {
        blocks: RefCell::new(HashMap::new()),
        nblocks: 1 + total + 8,
        fail_next_write: Cell::new(false),
        skip_writes: Cell::new(0),
        failed: Cell::new(0),
    };
    let mut mbr = [0u8; 512];
    mbr[446 + 4] = if fat32 { 0x0C } else { 0x06 };
    put32(&mut mbr, 446 + 8, 1);
    put32(&mut mbr, 446 + 12, total);
    put16(&mut mbr, 510, 0xAA55);
    disk.blocks.borrow_mut().insert(0, mbr);
    let mut b = [0u8; 512];
    b[0] = 0xEB;
    b[1] = 0x3C;
    b[2] = 0x90;
    b[3..11].copy_from_slice(b"MSDOS5.0");
    put16(&mut b, 11, 512);
    b[13] = 1;
    put16(&mut b, 14, reserved as u16);
    b[16] = 2;
    put16(&mut b, 17, root_entries as u16);
    b[21] = 0xF8;
    put16(&mut b, 22, if fat32 { 0 } else { fat_size as u16 });
    put32(&mut b, 32, total);
    if fat32 {
        put32(&mut b, 36, fat_size);
        put32(&mut b, 44, 2);
        put16(&mut b, 48, 1);
        put16(&mut b, 50, 6);
        b[66] = 0x29;
        b[71..82].copy_from_slice(b"           ");
        b[82..90].copy_from_slice(b"FAT32   ");
    } else {
        b[38] = 0x29;
        b[43..54].copy_from_slice(b"           ");
        b[54..62].copy_from_slice(b"FAT16   ");
    }
    put16(&mut b, 510, 0xAA55);
    disk.blocks.borrow_mut().insert(1, b);
    if fat32 {
        let mut info = [0u8; 512];
        put32(&mut info, 0, 0x4161_5252);
        put32(&mut info, 484, 0x6141_7272);
        put32(&mut info, 488, clusters - 1);
        put32(&mut info, 492, 3);
        put32(&mut info, 508, 0xAA55_0000);
        disk.blocks.borrow_mut().insert(2, info);
    }
    for copy in 0..2 {
        let mut f = [0u8; 512];
        if fat32 {
            put32(&mut f, 0, 0x0FFF_FFF8);
            put32(&mut f, 4, 0x0FFF_FFFF);
            put32(&mut f, 8, 0x0FFF_FFFF); // the root directory's cluster
        } else {
            put16(&mut f, 0, 0xFFF8);
            put16(&mut f, 2, 0xFFFF);
        }
        disk.blocks
            .borrow_mut()
            .insert(1 + reserved + copy * fat_size, f);
    }
    disk
}

type Mgr<'a> = VolumeManager<Dev<'a>, Clock, 4, 4, 1>;

/// 20 files in the root directory: the first directory block (16 slots) is
/// completely in use, F03.TXT lives in it.
fn populate(disk: &Disk) {
    let mgr: Mgr = VolumeManager::new_with_limits(Dev(disk), Clock, 100);
    let vol = mgr.open_volume(VolumeIdx(0)).unwrap();
    let root = vol.open_root_dir().unwrap();
    for i in 0..20 {
        let name = format!("F{:02}.TXT", i);
        let f = root
            .open_file_in_dir(name.as_str(), Mode::ReadWriteCreate)
            .unwrap();
        f.write(format!("old contents of {}", name).as_bytes())
            .unwrap();
        f.close().unwrap();
    }
    root.close().unwrap();
    vol.close().unwrap();
}

/// What a freshly mounted volume (no cache) shows in the root directory.
fn names_on_medium(disk: &Disk) -> Vec<String> {
    let mgr: Mgr = VolumeManager::new_with_limits(Dev(disk), Clock, 9000);
    let vol = mgr.open_volume(VolumeIdx(0)).unwrap();
    let root = vol.open_root_dir().unwrap();
    let mut names = Vec::new();
    root.iterate_dir(|e| names.push(format!("{}", e.name)))
        .unwrap();
    names
}

fn failed_delete_then_create(fat32: bool) {
    let disk = mkfs(fat32);
    populate(&disk);
    assert_eq!(
        names_on_medium(&disk)
            .iter()
            .filter(|n| *n == "F03.TXT")
            .count(),
        1
    );

    let mgr: Mgr = VolumeManager::new_with_limits(Dev(&disk), Clock, 100);
    let vol = mgr.open_volume(VolumeIdx(0)).unwrap();
    let root = vol.open_root_dir().unwrap();

    // The one injected fault: the write of the directory block fails, once.
    disk.fail_next_write.set(true);
    let r = root.delete_file_in_dir("F03.TXT");
    assert_eq!(disk.failed.get(), 1, "the fault was injected");
    assert!(
        matches!(r, Err(Error::DeviceError(_))),
        "the failed delete reports the device error: {:?}",
        r
    );

    // The device is healthy again. "Replace the file": the delete did not
    // happen, so this has to open and truncate the existing F03.TXT.
    let f = root
        .open_file_in_dir("F03.TXT", Mode::ReadWriteCreateOrTruncate)
        .expect("open after the fault went away");
    f.write(b"new contents").expect("write");
    f.close().expect("close");
    root.close().unwrap();
    vol.close().unwrap();
    assert_eq!(disk.failed.get(), 1, "no other device call failed");

    let names = names_on_medium(&disk);
    let count = names.iter().filter(|n| *n == "F03.TXT").count();
    assert_eq!(
        count, 1,
        "the root directory on the medium holds {} entries named F03.TXT after a failed delete \
         followed by a create: {:?}",
        count, names
    );
}

#[test]
fn failed_delete_then_create_duplicates_the_name_fat16() {
    failed_delete_then_create(false);
}

#[test]
fn failed_delete_then_create_duplicates_the_name_fat32() {
    failed_delete_then_create(true);
}

#[test]
fn failed_delete_makes_the_file_invisible() {
    let disk = mkfs(false);
    populate(&disk);
    let mgr: Mgr = VolumeManager::new_with_limits(Dev(&disk), Clock, 100);
    let vol = mgr.open_volume(VolumeIdx(0)).unwrap();
    let root = vol.open_root_dir().unwrap();

    disk.fail_next_write.set(true);
    let r = root.delete_file_in_dir("F03.TXT");
    assert!(matches!(r, Err(Error::DeviceError(_))), "{:?}", r);

    // Nothing was written: F03.TXT is on the medium, exactly as before.
    assert!(names_on_medium(&disk).contains(&"F03.TXT".to_string()));
    // ... so a (read-only) lookup, with the device healthy again, must find it.
    let found = root.find_directory_entry("F03.TXT");
    assert!(
        found.is_ok(),
        "F03.TXT is still on the medium, but after the failed delete the lookup answers {:?} \
         (from the cached block that was never written)",
        found
    );
}

#[test]
fn retried_append_reports_success_but_the_chain_link_was_never_stored() {
    let disk = mkfs(false);
    let mgr: Mgr = VolumeManager::new_with_limits(Dev(&disk), Clock, 100);
    let vol = mgr.open_volume(VolumeIdx(0)).unwrap();
    let root = vol.open_root_dir().unwrap();
    let first: Vec<u8> = (0..512u32).map(|i| (i * 7) as u8).collect();
    let second: Vec<u8> = (0..100u32).map(|i| (i * 13 + 1) as u8).collect();
    {
        let f = root
            .open_file_in_dir("A.BIN", Mode::ReadWriteCreate)
            .unwrap();
        f.write(&first).unwrap(); // exactly one cluster
        f.close().unwrap();
    }
    let f = root
        .open_file_in_dir("A.BIN", Mode::ReadWriteAppend)
        .unwrap();
    // Device calls of this append: R fat, W fat (new cluster = end of chain),
    // W fat copy 2, W fat (old last cluster -> new cluster)  <- this one fails
    disk.skip_writes.set(2);
    disk.fail_next_write.set(true);
    let r = f.write(&second);
    assert_eq!(disk.failed.get(), 1, "the fault was injected");
    assert!(r.is_err(), "the failed write reports an error: {:?}", r);

    // healthy again: retry, then close - whatever these return decides what the
    // caller believes about the file
    let retry = f.write(&second);
    let close = f.close();
    root.close().unwrap();
    vol.close().unwrap();
    assert_eq!(disk.failed.get(), 1, "no other device call failed");

    // what is really on the medium
    let mgr2: Mgr = VolumeManager::new_with_limits(Dev(&disk), Clock, 9000);
    let vol2 = mgr2.open_volume(VolumeIdx(0)).unwrap();
    let root2 = vol2.open_root_dir().unwrap();
    let f2 = root2.open_file_in_dir("A.BIN", Mode::ReadOnly).unwrap();
    let len = f2.length() as usize;
    let mut buf = vec![0u8; 1024];
    let mut got = Vec::new();
    let read_result = loop {
        match f2.read(&mut buf) {
            Ok(0) => break Ok(()),
            Ok(n) => got.extend_from_slice(&buf[..n]),
            Err(e) => break Err(e),
        }
    };
    if retry.is_ok() && close.is_ok() {
        let mut want = first.clone();
        want.extend_from_slice(&second);
        assert!(
            read_result.is_ok() && got == want,
            "the retried write and the close both returned Ok, but on the medium A.BIN has \
             length {} and reading it gives {:?} after {} bytes: the link to its second cluster \
             only ever existed in the block cache",
            len,
            read_result,
            got.len()
        );
    }
}
