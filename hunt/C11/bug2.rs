//! C11 bug 2: `VolumeManager::read` (and `File::read`, and the embedded-io
//! `Read` impl on top of it) that hits a device error in the middle of a
//! multi-block read returns `Err`, but has already consumed the blocks before
//! the failing one: the file position has moved, the byte count is lost.  The
//! retried read silently continues somewhere in the middle of the file.
//!
//! Clause violated (C11): "a read-only call that failed on a transient fault
//! gives the correct answer when retried".  (It also breaks the contract of
//! `embedded_io::Read::read` / `std::io::Read::read`: an error means no bytes
//! were read.)
//!
//! What should have happened: either the failed read leaves the position where
//! it was (so the retry returns bytes 0..1300), or the first call returns
//! `Ok(512)` - the bytes it did deliver - and reports the error on the next call.
//!
//! Root cause: src/volume_mgr.rs:758-783 - the loop advances
//! `open_files[file_idx].current_offset` (`seek_from_current(to_copy)`, line
//! 780-782) after every block, and the `?` on `find_data_on_disk` (line 765) /
//! `block_cache.read` (line 771) of a LATER block returns the error without
//! either rewinding the offset or reporting `read`.
//!
//! Self-contained: a sparse in-memory block device, a tiny mkfs, no files.

use embedded_sdmmc::{
    Block, BlockCount, BlockDevice, BlockIdx, Error, Mode, TimeSource, Timestamp, VolumeIdx,
    VolumeManager,
};
use std::cell::{Cell, RefCell};
use std::collections::HashMap;

struct Disk {
    blocks: RefCell<HashMap<u32, [u8; 512]>>,
    nblocks: u32,
    /// fail the read call with this number (counted from `arm`), once,
    /// after scribbling over the caller's buffer
    fail_read_no: Cell<Option<u32>>,
    reads: Cell<u32>,
    failed: Cell<u32>,
}

#[derive(Debug, Clone, PartialEq)]
struct DevErr;

struct Dev<'a>(&'a Disk);

impl<'a> BlockDevice for Dev<'a> {
    type Error = DevErr;
    fn read(&self, blocks: &mut [Block], start: BlockIdx) -> Result<(), DevErr> {
        let n = self.0.reads.get();
        self.0.reads.set(n + 1);
        if self.0.fail_read_no.get() == Some(n) {
            self.0.fail_read_no.set(None);
            self.0.failed.set(self.0.failed.get() + 1);
            for b in blocks.iter_mut() {
                b.contents = [0xA5; 512];
            }
            return Err(DevErr);
        }
        for (i, b) in blocks.iter_mut().enumerate() {
            let idx = start.0 + i as u32;
            assert!(idx < self.0.nblocks);
            b.contents = self
                .0
                .blocks
                .borrow()
                .get(&idx)
                .copied()
                .unwrap_or([0u8; 512]);
        }
        Ok(())
    }
    fn write(&self, blocks: &[Block], start: BlockIdx) -> Result<(), DevErr> {
        for (i, b) in blocks.iter().enumerate() {
            let idx = start.0 + i as u32;
            assert!(idx < self.0.nblocks);
            self.0.blocks.borrow_mut().insert(idx, b.contents);
        }
        Ok(())
    }
    fn num_blocks(&self) -> Result<BlockCount, DevErr> {
        Ok(BlockCount(self.0.nblocks))
    }
}

struct Clock;
impl TimeSource for Clock {
    fn get_timestamp(&self) -> Timestamp {
        Timestamp {
            year_since_1970: 40,
            zero_indexed_month: 1,
            zero_indexed_day: 1,
            hours: 1,
            minutes: 2,
            seconds: 4,
        }
    }
}

fn put16(b: &mut [u8], off: usize, v: u16) {
    b[off..off + 2].copy_from_slice(&v.to_le_bytes());
}
fn put32(b: &mut [u8], off: usize, v: u32) {
    b[off..off + 4].copy_from_slice(&v.to_le_bytes());
}

/// One partition at block 1, one sector per cluster, two FATs.
fn mkfs(fat32: bool) -> Disk {
    let clusters: u32 = if fat32 { 65600 } else { 4200 };
    let reserved: u32 = if fat32 { 32 } else { 1 };
    let root_entries: u32 = if fat32 { 0 } else { 64 };
    let root_blocks = root_entries * 32 / 512;
    let fat_size = if fat32 {
        ((clusters + 2) * 4 + 511) / 512
    } else {
        ((clusters + 2) * 2 + 511) / 512
    };
    let total = reserved + 2 * fat_size + root_blocks + clusters;
    let disk = Disk {
        blocks: RefCell::new(HashMap::new()),
        nblocks: 1 + total + 8,
        fail_read_no: Cell::new(None),
        reads: Cell::new(0),
        failed: Cell::new(0),
    };
    let mut mbr = [0u8; 512];
    mbr[446 + 4] = if fat32 { 0x0C } else { 0x06 };
    put32(&mut mbr, 446 + 8, 1);
    put32(&mut mbr, 446 + 12, total);
    put16(&mut mbr, 510, 0xAA55);
    disk.blocks.borrow_mut().insert(0, mbr);
    let mut b = [0u8; 512];
    b[0] = 0xEB;
    b[1] = 0x3C;
    b[2] = 0x90;
    b[3..11].copy_from_slice(b"MSDOS5.0");
    put16(&mut b, 11, 512);
    b[13] = 1;
    put16(&mut b, 14, reserved as u16);
    b[16] = 2;
    put16(&mut b, 17, root_entries as u16);
    b[21] = 0xF8;
    put16(&mut b, 22, if fat32 { 0 } else { fat_size as u16 });
    put32(&mut b, 32, total);
    if fat32 {
        put32(&mut b, 36, fat_size);
        put32(&mut b, 44, 2);
        put16(&mut b, 48, 1);
        put16(&mut b, 50, 6);
        b[66] = 0x29;
        b[71..82].copy_from_slice(b"           ");
        b[82..90].copy_from_slice(b"FAT32   ");
    } else {
        b[38] = 0x29;
        b[43..54].copy_from_slice(b"           ");
        b[54..62].copy_from_slice(b"FAT16   ");
    }
    put16(&mut b, 510, 0xAA55);
    disk.blocks.borrow_mut().insert(1, b);
    if fat32 {
        let mut info = [0u8; 512];
        put32(&mut info, 0, 0x4161_5252);
        put32(&mut info, 484, 0x6141_7272);
        put32(&mut info, 488, clusters - 1);
        put32(&mut info, 492, 3);
        put32(&mut info, 508, 0xAA55_0000);
        disk.blocks.borrow_mut().insert(2, info);
    }
    for copy in 0..2 {
        let mut f = [0u8; 512];
        if fat32 {
            put32(&mut f, 0, 0x0FFF_FFF8);
            put32(&mut f, 4, 0x0FFF_FFFF);
            put32(&mut f, 8, 0x0FFF_FFFF); // the root directory's cluster
        } else {
            put16(&mut f, 0, 0xFFF8);
            put16(&mut f, 2, 0xFFFF);
        }
        disk.blocks
            .borrow_mut()
            .insert(1 + reserved + copy * fat_size, f);
    }
    disk
}

type Mgr<'a> = VolumeManager<Dev<'a>, Clock, 4, 4, 1>;


fn pattern(len: usize) -> Vec<u8> {
    (0..len).map(|i| (i as u32).wrapping_mul(2654435761).to_le_bytes()[2]).collect()
}

fn failed_read_then_retry(fat32: bool, failing_read_call: u32) {
    let disk = mkfs(fat32);
    let data = pattern(1300); // three clusters of one block each
    let mgr: Mgr = VolumeManager::new_with_limits(Dev(&disk), Clock, 100);
    let vol = mgr.open_volume(VolumeIdx(0)).unwrap();
    let root = vol.open_root_dir().unwrap();
    {
        let f = root
            .open_file_in_dir("DATA.BIN", Mode::ReadWriteCreate)
            .unwrap();
        f.write(&data).unwrap();
        f.close().unwrap();
    }
    let f = root.open_file_in_dir("DATA.BIN", Mode::ReadOnly).unwrap();
    assert_eq!(f.length(), 1300);
    assert_eq!(f.offset(), 0);

    // One transient fault: the n-th device read of this call fails (and
    // scribbles over the buffer).  Device reads of the call are: data block 0,
    // FAT sector, data block 1, FAT sector, data block 2.
    disk.reads.set(0);
    disk.fail_read_no.set(Some(failing_read_call));
    let mut buf = [0u8; 1300];
    let r = f.read(&mut buf);
    assert_eq!(disk.failed.get(), 1, "the fault was injected");
    assert!(
        matches!(r, Err(Error::DeviceError(_))),
        "the read reports the device error: {:?}",
        r
    );

    // The fault has gone away; the caller, who was told nothing was read, retries.
    let mut buf2 = [0u8; 1300];
    let n = f.read(&mut buf2).expect("retry");
    assert_eq!(disk.failed.get(), 1, "no other device call failed");
    assert!(
        n == 1300 && buf2[..n] == data[..],
        "the read failed with an error, but its retry returned {} bytes that are file bytes {}.. \
         instead of the 1300 bytes from offset 0 (the failed call moved the position to {})",
        n,
        data.windows(16).position(|w| w == &buf2[..16]).map(|p| p.to_string()).unwrap_or("?".into()),
        1300 - n,
    );
}

#[test]
fn retry_after_fat_read_fault_fat16() {
    failed_read_then_retry(false, 1);
}

#[test]
fn retry_after_data_read_fault_fat16() {
    failed_read_then_retry(false, 2);
}

#[test]
fn retry_after_late_fault_fat32() {
    failed_read_then_retry(true, 4);
}

/// The same through the embedded-io trait.
#[test]
fn embedded_io_read_error_after_consuming_bytes() {
    use embedded_io::Read;
    let disk = mkfs(false);
    let data = pattern(1300);
    let mgr: Mgr = VolumeManager::new_with_limits(Dev(&disk), Clock, 100);
    let vol = mgr.open_volume(VolumeIdx(0)).unwrap();
    let root = vol.open_root_dir().unwrap();
    {
        let f = root
            .open_file_in_dir("DATA.BIN", Mode::ReadWriteCreate)
            .unwrap();
        f.write(&data).unwrap();
        f.close().unwrap();
    }
    let mut f = root.open_file_in_dir("DATA.BIN", Mode::ReadOnly).unwrap();
    disk.reads.set(0);
    disk.fail_read_no.set(Some(2));
    let mut buf = [0u8; 1300];
    assert!(Read::read(&mut f, &mut buf).is_err());
    assert_eq!(
        f.offset(),
        0,
        "Read::read returned an error, so no bytes were read - but the position moved"
    );
}
