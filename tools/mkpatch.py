#!/usr/bin/env python3
"""mkpatch.py out.diff file old new [file old new ...]  - build a unified diff against /repo HEAD text."""
import sys, difflib
out = sys.argv[1]; args = sys.argv[2:]
files = {}
for i in range(0, len(args), 3):
    path, old, new = args[i], args[i+1], args[i+2]
    s = files.get(path) or open('/repo/' + path).read()
    old = old.encode().decode('unicode_escape'); new = new.encode().decode('unicode_escape')
    assert old in s, (path, old[:60])
    files[path] = s.replace(old, new, 1)
res = ''
for path, s in files.items():
    a = open('/repo/' + path).read().splitlines(True); b = s.splitlines(True)
    res += ''.join(difflib.unified_diff(a, b, 'a/' + path, 'b/' + path))
open(out, 'w').write(res)
print(out, len(res.splitlines()), "lines")
