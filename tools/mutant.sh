#!/bin/bash
# usage: tools/mutant.sh <label> (revert:<sha> | patch:<file>) <check> [more checks...]
# Applies a change to a scratch worktree of /repo (never to /repo itself), runs the given quick
# checks against it (SDV_REPO), prints their verdict lines, and removes the worktree + its target dir.
set -u
label=$1; what=$2; shift 2
wt=/tmp/mut-$label
git -C /repo worktree remove --force $wt >/dev/null 2>&1
git -C /repo worktree add -q --detach $wt HEAD || exit 2
cp /repo/Cargo.lock $wt/ 2>/dev/null
case $what in
  revert:*) git -C $wt revert --no-commit ${what#revert:} >/dev/null 2>&1 || { echo "revert failed"; git -C /repo worktree remove --force $wt; exit 2; } ;;
  patch:*) git -C $wt apply ${what#patch:} || { echo "patch failed"; git -C /repo worktree remove --force $wt; exit 2; } ;;
esac
for c in "$@"; do
  echo "--- $label vs $c"
  SDV_REPO=$wt timeout 1500 /verif/check $c --no-evidence ${MUTANT_ARGS:-} 2>&1 | grep -a -E "^  \[|^HELD|^VIOLATED|^INCONC|^KNOWN" | cut -c1-330 | awk '/^  \[/{n++; if(n<=6)print; next} {print}'
done
tdir=/verif/harness/target-$(python3 -c "import hashlib,os;print(hashlib.sha1(os.path.realpath('$wt').encode()).hexdigest()[:8])")
rm -rf $tdir
git -C /repo worktree remove --force $wt
