#!/bin/bash
cd /verif
for s in ${SEEDS:-1 2 3 7 12345}; do
 for c in C01 C02 C03 C04 C05 C06 C07 C08 C09 C10 C11 C12 C13 C14 C15 C16 C17 C18 C19; do
  r=$(timeout 1500 ./check $c --seed $s --no-evidence --no-legs 2>&1 | grep -a -E "^HELD|^VIOLATED|^INCONC|^  \[" | cut -c1-250 | tr '\n' ' ')
  echo "seed=$s $r"
 done
done
