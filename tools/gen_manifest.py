#!/usr/bin/env python3
"""Regenerates /verif/MANIFEST.json from the table below (run after adding a check)."""
import json, subprocess
V = '/verif'
props = [json.loads(l) for l in open(V + '/properties.jsonl')]
# id -> (level, technique, level text, level note)
BUILT = {
 'C06': ('exploration', 'reference-reader monitor: iterate_dir/find/open_dir vs independent FAT reader over generated directories',
         'every listing, lookup and open_dir on thousands of generated directories is compared field-for-field with an independent reader of the raw image',
         'trusted: independent reader (fatref) and formatter (mkfs), cross-validated in selftest against each other and the repository\'s macOS-made image'),
 'C15': ('exploration', 'mount monitor: formatter-made layouts read back + device read log classification; mutated sectors under overflow-checks with panic capture',
         'valid layouts over the stated parameter grid are mounted, listed and read back; >10^6 invalid sector triples are mounted with arithmetic checks on and panics caught',
         'trusted: independent formatter/reader; harness built with overflow-checks and debug-assertions'),
 'C17': ('exploration', 'differential monitor: LfnBuffer vs std UTF-16 lossy decoder; iterate_dir_lfn vs independent LFN assembler',
         'class-exhaustive fragment-boundary enumeration plus random fragments and crafted directories, every result compared with std\'s decoder',
         'trusted: std String::from_utf16_lossy; independent LFN assembler'),
 'C18': ('exploration', 'differential monitor vs independent FAT entry/timestamp/8.3 codecs (all 2^32 timestamp pairs enumerated)',
         'all 2^32 (date,time) pairs, every calendar day 1980-2107, boundary cross product of entry fields, all strings to length 5/6 over a class alphabet',
         'trusted: independent codecs written from the FAT specification; hook H1 only forwards to the private serialiser'),
 'C19': ('exploration', 'differential monitor vs independent polynomial division (exhaustive to length 3, error patterns by linearity)',
         'exhaustive for messages up to 3 bytes and for single/double/burst errors in a 514-byte frame; random messages to 2 KiB',
         'trusted: two independent dividers cross-checked against each other and the SD specification vectors'),
}
import importlib.util, os
extra = os.path.join(V, 'tools', 'manifest_table.json')
if os.path.exists(extra):
    for k, val in json.load(open(extra)).items():
        BUILT[k] = tuple(val)
NA = {}
na_file = os.path.join(V, 'tools', 'not_applicable.json')
if os.path.exists(na_file):
    NA = json.load(open(na_file))
checks = []
for p in props:
    i = p['id']
    if i in BUILT:
        lvl, tech, text, note = BUILT[i]
        checks.append({
            "property_id": i,
            "quick_cmd": f"./check {i} --tier quick",
            "thorough_cmd": f"./check {i} --tier thorough",
            "evidence_file": f"/verif/evidence/{i}.json",
            "replay_cmd_template": f"./check {i} --replay {{path}}",
            "engine": "sdv",
            "level_claimed": {"category": lvl, "text": text + "; held on the executions listed in the evidence file, never 'verified'", "design_ref": "DESIGN.md section 3, " + i},
            "level_note": note,
            "technique": tech})
na = [{"property_id": p['id'], "reason": NA.get(p['id'], "check under construction in this round (monitor designed in DESIGN.md section 3, not yet registered)")} for p in props if p['id'] not in BUILT]
hooks = subprocess.run(['git', '-C', '/repo', 'log', '--format=%h %s'], capture_output=True, text=True).stdout.splitlines()
hook_commits = [l.split()[0] for l in hooks if l.split(' ', 1)[1].startswith('verif hook')]
m = {"version": 1,
     "setup_cmd": "./check setup",
     "hooks": {"guard": "cargo feature verif-hooks", "enable": "harness/Cargo.toml depends on embedded-sdmmc with features=[\"verif-hooks\"]",
               "baseline_off_cmd": "cd /repo && cargo test --workspace --no-fail-fast --offline", "source_commits": hook_commits, "add_only": True},
     "engines": [{"name": "sdv", "path": "/verif/harness", "serves_properties": sorted(BUILT),
                  "kind_free_text": "Rust harness: reference-model / differential / trace monitors over the real library, rebuilt from /repo's working tree on every run"}],
     "checks": checks,
     "not_applicable": na,
     "notes": "Runtime monitoring only. Exit 0 held, 1 violation, 2 inconclusive (build failure, watchdog, too few observations)."}
json.dump(m, open(V + '/MANIFEST.json', 'w'), indent=1)
print("checks:", [c['property_id'] for c in checks], "not_applicable:", len(na))
