#!/bin/bash
# usage: tools/run_seeded.sh <seeded-id> <check> [checks...]   (runs quick checks against a seeded mutant)
id=$1; shift
MUTANT_ARGS="${MUTANT_ARGS:---no-legs}" /verif/tools/mutant.sh $id patch:/verif/seeded/$id/patch.diff "$@"
