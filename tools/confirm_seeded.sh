#!/bin/bash
# usage: tools/confirm_seeded.sh <agent-out-dir>/m<i> <seeded-id>
# Confirms an externally produced mutant in a scratch worktree: baseline tests pass with the patch,
# the demonstration fails with it and passes without it. On success copies it to /verif/seeded/<id>/.
set -u
src=$1; id=$2
wt=/tmp/confirm-$id
git -C /repo worktree remove --force $wt >/dev/null 2>&1
git -C /repo worktree add -q --detach $wt HEAD || exit 2
cp /repo/Cargo.lock $wt/
cp $src/demo.rs $wt/tests/seeded_demo.rs
cd $wt
ran=""
# 1. demo passes without the patch
if timeout 1200 cargo test --offline --test seeded_demo >/tmp/confirm-$id.clean.log 2>&1; then clean=pass; else clean=FAIL; fi
# 2. with the patch: baseline green, demo fails
git apply $src/patch.diff || { echo "$id: patch does not apply"; cd /; git -C /repo worktree remove --force $wt; exit 1; }
if timeout 1200 cargo test --offline --test seeded_demo >/tmp/confirm-$id.mut.log 2>&1; then mut=PASS; else mut=fail; fi
rm tests/seeded_demo.rs
if timeout 2400 cargo test --offline >/tmp/confirm-$id.base.log 2>&1; then base=pass; else base=FAIL; fi
echo "$id: demo without patch=$clean, demo with patch=$mut, baseline with patch=$base"
cd /
git -C /repo worktree remove --force $wt
if [ "$clean" = pass ] && [ "$mut" = fail ] && [ "$base" = pass ]; then
  mkdir -p /verif/seeded/$id
  cp $src/patch.diff /verif/seeded/$id/patch.diff
  cp $src/demo.rs /verif/seeded/$id/demo.rs
  cp $src/meta.json /verif/seeded/$id/agent_meta.json
  echo "$id: confirmed"
else
  echo "$id: NOT confirmed"; exit 1
fi
