#!/usr/bin/env python3
"""For every seeded mutant under /verif/seeded/<id>/ run the quick check of its property against a scratch
worktree with the patch applied (tools/mutant.sh) and record the outcome in meta.json + seeded/RESULTS.md."""
import json, os, subprocess, sys, re, time
V = '/verif'
ids = sorted(d for d in os.listdir(V + '/seeded') if os.path.isdir(f'{V}/seeded/{d}') and os.path.exists(f'{V}/seeded/{d}/patch.diff'))
only = sys.argv[1:]
NOTES = {'C05-r2': ('HELD - change neutralised by a later repair', "This change (write() marks the handle dirty only inside the copy loop) broke C05 through one path only: an empty write allocated a first cluster without marking the handle dirty, so the cluster leaked. The quick check reported it (C05.leak) until the library's own defect behind that path was repaired (fix 6497a0b: an empty write returns early and allocates nothing). On the repaired library the change has no observable effect in fault-free histories, and the check is rightly silent.")}
rows = []
for i in ids:
    if only and i not in only:
        continue
    prop = i.split('-')[0]
    am = {}
    try:
        am = json.load(open(f'{V}/seeded/{i}/agent_meta.json'))
    except Exception:
        pass
    t0 = time.time()
    # changes that only show under conditions another property's check is responsible for (device
    # errors -> C11, a write reported wrongly -> C01): that check is run too when the own one holds
    EXTRA = {'C02-r4': ['C01'], 'C03-r4': ['C11'], 'C05-r4': ['C11'], 'C07-r4': ['C11'], 'C09-r4': ['C11'],
             # round 6: a close under a device write error (C08 injects none); a cluster count one too high
             # (capacity and the partition's bounds are what C05 / C04 decide; C01's statement is silent on them)
             'C08-m5': ['C11'], 'C01-m6': ['C05']}
    WHY = {'C11': 'block-device errors', 'C01': 'a misreported write', 'C05': 'a volume filled to its last cluster (capacity is what C05 decides)'}
    caught_by = None
    checks_run = []
    for chk in [prop] + EXTRA.get(i, []):
        p = subprocess.run([f'{V}/tools/mutant.sh', i, f'patch:{V}/seeded/{i}/patch.diff', chk], capture_output=True, text=True, errors='replace',
                           env=dict(os.environ, MUTANT_ARGS='--no-legs'))
        out = p.stdout + p.stderr
        verdict = 'VIOLATED' if re.search(r'^VIOLATED', out, re.M) else ('HELD' if re.search(r'^HELD', out, re.M) else 'INCONCLUSIVE')
        checks_run.append(f'{chk}: {verdict}')
        if verdict == 'VIOLATED':
            caught_by = chk
            break
    sigs = re.findall(r'^  \[([^\]]+)\]', out, re.M)
    sigs = [s for s in sigs][:4]
    meta = {
        'property': prop,
        'origin': 'independent sub-agent given only the property text and a scratch worktree' if am else 'hand-written',
        'summary': am.get('summary', ''),
        'needs_to_manifest': am.get('needs', ''),
        'agent_ran': am.get('ran', ''),
        'confirmed_by_me': 'tools/confirm_seeded.sh: demo passes on clean tree, fails with patch; baseline `cargo test --offline` green with patch',
        'check_run': f'tools/mutant.sh {i} patch:/verif/seeded/{i}/patch.diff {prop}  (= SDV_REPO=<scratch worktree> ./check {prop} --no-evidence --no-legs)',
        'verdict_of_quick_check': verdict if caught_by in (None, prop) else f'VIOLATED (by {caught_by}; own check {prop}: HELD - the change needs ' + WHY.get(caught_by, 'conditions that check creates') + ')',
        'checks_run': checks_run,
        'first_signatures': sigs,
        'wall_s': round(time.time() - t0, 1),
    }
    # notes written by hand survive a re-run
    if i in NOTES and verdict == 'HELD':
        meta['verdict_of_quick_check'] = NOTES[i][0]
        meta['note'] = NOTES[i][1]
    json.dump(meta, open(f'{V}/seeded/{i}/meta.json', 'w'), indent=1)
    rows.append((i, prop, verdict, sigs[0] if sigs else '', am.get('summary', '')[:140]))
    print(i, verdict, sigs[:1], flush=True)
# RESULTS.md is always rebuilt from every meta.json present
with open(f'{V}/seeded/RESULTS.md', 'w') as f:
    f.write('# Seeded changes and which check catches them\n\nRounds: `-m1/-m2` round 1, `-r2` round 2 (agents were told the checker\'s workload), `-m3/-m4` round 3, `-r4` round 4 (adversarial, like round 2), `-m5/-m6` round 6 (plain protocol). See DESIGN.md 10.5.\n\n| id | property | quick check verdict | first signature | change |\n|---|---|---|---|---|\n')
    for i in ids:
        try:
            m = json.load(open(f'{V}/seeded/{i}/meta.json'))
        except Exception:
            f.write('| %s | %s | (not run yet) | | |\n' % (i, i.split('-')[0]))
            continue
        sig = (m.get('first_signatures') or [''])[0]
        f.write('| %s | %s | %s | `%s` | %s |\n' % tuple(str(x).replace('|', '/') for x in (i, m['property'], m['verdict_of_quick_check'], sig, m.get('summary', '')[:140])))
